#!/usr/bin/env python3
"""
Development aid (not a registered check): apply a textual mutation to /repo, run checks, revert.
  tools/mutate.py <file relative to /repo> <old> <new> <Cxx>[,Cyy...] [tier]
Exit 0 if every listed check reported a VIOLATION (mutant caught), 1 otherwise.  /repo is restored with
`git checkout -- <file>` in a finally block.
"""
import subprocess
import sys


def main():
    f, old, new, checks = sys.argv[1:5]
    tier = sys.argv[5] if len(sys.argv) > 5 else 'quick'
    path = '/repo/' + f
    src = open(path).read()
    if src.count(old) != 1:
        print('pattern occurs %d times in %s' % (src.count(old), f))
        return 2
    ok = True
    try:
        open(path, 'w').write(src.replace(old, new))
        for c in checks.split(','):
            r = subprocess.run(['/verif/vcheck', c, tier], capture_output=True, text=True)
            v = [l for l in r.stdout.splitlines() if l.startswith('VIOLATION')]
            sigs = [l.strip() for l in r.stdout.splitlines() if l.strip().startswith('sig=')]
            print('%s: rc=%d violations=%d %s' % (c, r.returncode, len(v), '; '.join(sigs[:3])))
            if r.returncode != 1 or not v:
                ok = False
                print(r.stdout[-600:], r.stderr[-600:])
    finally:
        subprocess.run(['git', '-C', '/repo', 'checkout', '--', f])
        subprocess.run(["rm", "-rf", "/verif/replays"])
        subprocess.run(["git", "-C", "/verif", "checkout", "--", "evidence"])
    print('CAUGHT' if ok else 'MISSED')
    return 0 if ok else 1


if __name__ == '__main__':
    sys.exit(main())
