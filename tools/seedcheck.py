#!/usr/bin/env python3
"""
Development aid (not a registered check).

  tools/seedcheck.py verify <seed dir>            confirm a seeded change in a scratch worktree: the patch applies to
                                                  /repo's HEAD, the 45 repository tests still pass with it, the
                                                  demonstration fails with it and passes without it
  tools/seedcheck.py run <seed dir> <Cxx,...> [tier]
                                                  apply the patch to /repo, run the checks, undo it (git checkout -- .)
Seed dir: patch.diff, demo.py, meta.json.
"""
import json
import os
import shutil
import subprocess
import sys
import tempfile

PY = '/venv/bin/python'


def sh(cmd, cwd=None, env=None, timeout=3600):
    return subprocess.run(cmd, cwd=cwd, env=env, capture_output=True, text=True, timeout=timeout)


def verify(seed):
    seed = os.path.abspath(seed)
    wt = tempfile.mkdtemp(prefix='seedverify_', dir='/tmp')
    os.rmdir(wt)
    r = sh(['git', '-C', '/repo', 'worktree', 'add', '--detach', wt, 'HEAD', '-q'])
    if r.returncode:
        print('worktree add failed', r.stderr)
        return 2
    res = {}
    try:
        env = dict(os.environ, PYTHONPATH=wt, PYTHONDONTWRITEBYTECODE='1')
        os.makedirs(os.path.join(wt, '_seed'))
        shutil.copy(os.path.join(seed, 'demo.py'), os.path.join(wt, '_seed', 'demo.py'))
        r = sh([PY, '_seed/demo.py'], cwd=wt, env=env, timeout=1200)
        res['demo_without'] = r.returncode
        r = sh(['git', 'apply', os.path.join(seed, 'patch.diff')], cwd=wt)
        res['applies'] = r.returncode == 0
        if not res['applies']:
            print(r.stderr)
        else:
            r = sh([PY, '_seed/demo.py'], cwd=wt, env=env, timeout=1200)
            res['demo_with'] = r.returncode
            res['demo_with_tail'] = (r.stdout + r.stderr)[-300:]
            r = sh([PY, '-m', 'pytest', '-q', '-p', 'no:cacheprovider', '--timeout=900', 'tests'], cwd=wt, env=env, timeout=3000)
            res['tests_tail'] = r.stdout.strip().splitlines()[-1] if r.stdout.strip() else r.stderr[-200:]
            res['tests_pass'] = r.returncode == 0
    finally:
        sh(['git', '-C', '/repo', 'worktree', 'remove', '--force', wt])
    res['ok'] = bool(res.get('applies') and res.get('tests_pass') and res.get('demo_without') == 0 and res.get('demo_with') not in (0, None))
    print(json.dumps(res, indent=1))
    return 0 if res['ok'] else 1


def run(seed, checks, tier='quick'):
    seed = os.path.abspath(seed)
    st = sh(['git', '-C', '/repo', 'status', '--porcelain']).stdout.strip()
    if st:
        print('/repo is not clean:', st)
        return 2
    out = {}
    try:
        r = sh(['git', '-C', '/repo', 'apply', os.path.join(seed, 'patch.diff')])
        if r.returncode:
            print('patch does not apply:', r.stderr)
            return 2
        for c in checks.split(','):
            r = sh(['/verif/vcheck', c, tier], timeout=7200)
            v = [l for l in r.stdout.splitlines() if l.startswith('VIOLATION')]
            sigs = [l.strip()[4:] for l in r.stdout.splitlines() if l.strip().startswith('sig=')]
            out[c] = {'rc': r.returncode, 'violations': len(v), 'sigs': sigs[:4]}
            print(c, out[c], flush=True)
            if r.returncode == 2:
                print(r.stdout[-800:], r.stderr[-800:])
    finally:
        sh(['git', '-C', '/repo', 'checkout', '--', '.'])
        shutil.rmtree('/verif/replays', ignore_errors=True)
        sh(['git', '-C', '/verif', 'checkout', '--', 'evidence'])
    caught = [c for c, o in out.items() if o['rc'] == 1 and o['violations']]
    print('CAUGHT-BY', ','.join(caught) if caught else 'NONE')
    return 0


def runw(seed, checks, tier='quick'):
    """Like run, but in a scratch worktree handed to the checks through VERIF_REPO (so /repo is never touched and
    several seeds can be run at once); evidence and replays go to a scratch directory."""
    seed = os.path.abspath(seed)
    wt = tempfile.mkdtemp(prefix='seedrun_', dir='/tmp')
    os.rmdir(wt)
    r = sh(['git', '-C', '/repo', 'worktree', 'add', '--detach', wt, 'HEAD', '-q'])
    if r.returncode:
        print('worktree add failed', r.stderr)
        return 2
    outdir = tempfile.mkdtemp(prefix='seedout_', dir='/dev/shm')
    out = {}
    try:
        r = sh(['git', 'apply', os.path.join(seed, 'patch.diff')], cwd=wt)
        if r.returncode:
            print('patch does not apply:', r.stderr)
            return 2
        env = dict(os.environ, VERIF_REPO=wt, VERIF_OUT=outdir)
        if os.environ.get('SEED_FAILFAST', '1') == '1':
            env['VERIF_FAILFAST'] = '1'
        for c in checks.split(','):
            r = sh(['/verif/vcheck', c, tier], env=env, timeout=7200)
            v = [l for l in r.stdout.splitlines() if l.startswith('VIOLATION')]
            sigs = [l.strip() for l in r.stdout.splitlines() if l.strip().startswith('sig=') or l.startswith('FAILFAST')]
            out[c] = {'rc': r.returncode, 'violations': len(v), 'sigs': sigs[:4]}
            print(os.path.basename(seed), c, out[c], flush=True)
            if r.returncode == 2:
                print(r.stdout[-800:], r.stderr[-800:])
    finally:
        sh(['git', '-C', '/repo', 'worktree', 'remove', '--force', wt])
        shutil.rmtree(outdir, ignore_errors=True)
    caught = [c for c, o in out.items() if o['rc'] == 1 and o['violations']]
    print(os.path.basename(seed), 'CAUGHT-BY', ','.join(caught) if caught else 'NONE')
    return 0


if __name__ == '__main__':
    if sys.argv[1] == 'runw':
        sys.exit(runw(*sys.argv[2:]))
    if sys.argv[1] == 'verify':
        sys.exit(verify(sys.argv[2]))
    sys.exit(run(*sys.argv[2:]))
