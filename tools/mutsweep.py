#!/usr/bin/env python3
"""
Development aid (not a registered check): systematic first-order mutants of pybufrkit source files, each run
against the quick checks that speak about that file, to find holes in the generated spaces.  Never touches /repo:
every mutant lives in a scratch tree (copy of pybufrkit/ + links to tests/) handed to vcheck through VERIF_REPO.

  tools/mutsweep.py list <file.py>                          number of mutation points
  tools/mutsweep.py run <file.py> <out.jsonl> [stride [offset [checks]]]
  tools/mutsweep.py show <file.py> <index>                  unified diff of one mutant
  tools/mutsweep.py tests <file.py> <index>                 run the repository tests on one mutant

A mutant is "killed" when a check exits 1 with a VIOLATION (VERIF_FAILFAST=1 stops a check at its first violating
part).  Survivors are triaged by hand: equivalent / outside every property / hole.
"""
import ast
import copy
import difflib
import json
import os
import shutil
import subprocess
import sys
import tempfile
import time

REPO = '/repo'
VERIF = os.path.dirname(os.path.dirname(os.path.abspath(__file__)))

CHECKS_FOR = {
    'bitops.py': 'C19,C04,C03,C01',
    'coder.py': 'C07,C06,C05,C02,C01,C08,C20',
    'decoder.py': 'C17,C04,C20,C05,C12,C11,C01,C13',
    'encoder.py': 'C04,C05,C03,C02,C10,C09',
    'templatedata.py': 'C07,C06,C16,C09,C13',
    'dataquery.py': 'C15,C16,C18',
    'mdquery.py': 'C17,C11,C18',
    'script.py': 'C18',
    'bufr.py': 'C17,C04,C10,C09,C11',
    'templatecompiler.py': 'C13,C08',
    'tables.py': 'C14,C20,C13,C01',
    'descriptors.py': 'C14,C07,C09,C01,C16',
    'renderer.py': 'C09,C13',
    'utils.py': 'C09',
    'dataprocessor.py': 'C20',
    'commands.py': 'C11,C12,C10,C09',
    '__init__.py': 'C11,C12,C10,C09',
    'constants.py': 'C14,C04,C01',
    'errors.py': 'C12,C15,C17',
}

CMP = {ast.Lt: ast.LtE, ast.LtE: ast.Lt, ast.Gt: ast.GtE, ast.GtE: ast.Gt, ast.Eq: ast.NotEq, ast.NotEq: ast.Eq,
       ast.Is: ast.IsNot, ast.IsNot: ast.Is, ast.In: ast.NotIn, ast.NotIn: ast.In}
BIN = {ast.Add: ast.Sub, ast.Sub: ast.Add, ast.Mult: ast.FloorDiv, ast.FloorDiv: ast.Mult, ast.Mod: ast.FloorDiv,
       ast.LShift: ast.RShift, ast.RShift: ast.LShift, ast.BitAnd: ast.BitOr, ast.BitOr: ast.BitAnd,
       ast.Div: ast.Mult, ast.Pow: ast.Mult}


def _in_raise_or_log(stack):
    for n in stack:
        if isinstance(n, ast.Raise):
            return True
        if isinstance(n, ast.Call):
            f = n.func
            name = f.attr if isinstance(f, ast.Attribute) else getattr(f, 'id', '')
            if name in ('debug', 'info', 'warning', 'error', 'exception', 'print', 'format', 'add_argument',
                        'add_parser', 'getLogger'):
                return True
    return False


def points(tree):
    """List of (description, lineno, mutator) -- mutator(tree_copy_node) applied on the node found by path."""
    out = []

    def visit(node, path, stack):
        st = stack + [node]
        if not _in_raise_or_log(st):
            if isinstance(node, ast.Compare):
                for i, op in enumerate(node.ops):
                    if type(op) in CMP:
                        out.append(('cmp %s->%s' % (type(op).__name__, CMP[type(op)].__name__), node.lineno, path,
                                    ('cmp', i)))
            elif isinstance(node, ast.BinOp) and type(node.op) in BIN:
                if not (isinstance(node.op, ast.Mod) and isinstance(node.left, ast.Constant) and isinstance(node.left.value, str)):
                    out.append(('bin %s->%s' % (type(node.op).__name__, BIN[type(node.op)].__name__), node.lineno, path,
                                ('bin',)))
            elif isinstance(node, ast.AugAssign) and type(node.op) in BIN:
                out.append(('aug %s->%s' % (type(node.op).__name__, BIN[type(node.op)].__name__), node.lineno, path,
                            ('aug',)))
            elif isinstance(node, ast.BoolOp):
                out.append(('bool %s' % type(node.op).__name__, node.lineno, path, ('bool',)))
            elif isinstance(node, ast.UnaryOp) and isinstance(node.op, ast.Not):
                out.append(('drop not', node.lineno, path, ('not',)))
            elif isinstance(node, ast.Constant) and isinstance(node.value, int) and not isinstance(node.value, bool):
                out.append(('const %d->%d' % (node.value, node.value + 1), node.lineno, path, ('const', 1)))
                if node.value > 0:
                    out.append(('const %d->%d' % (node.value, node.value - 1), node.lineno, path, ('const', -1)))
            elif isinstance(node, ast.Constant) and isinstance(node.value, bool):
                out.append(('const %s->%s' % (node.value, not node.value), node.lineno, path, ('flip',)))
            if isinstance(node, (ast.If, ast.While)) or isinstance(node, ast.IfExp):
                out.append(('negate test', node.lineno, path, ('neg',)))
            if isinstance(node, (ast.Assign, ast.AugAssign)) or (isinstance(node, ast.Expr) and isinstance(node.value, ast.Call)):
                if any(isinstance(s, (ast.FunctionDef,)) for s in stack):
                    out.append(('delete stmt', node.lineno, path, ('del',)))
        if isinstance(node, ast.Expr) and isinstance(node.value, ast.Constant) and isinstance(node.value.value, str):
            return        # docstring
        for field, value in ast.iter_fields(node):
            if isinstance(value, list):
                for i, v in enumerate(value):
                    if isinstance(v, ast.AST):
                        visit(v, path + [(field, i)], st)
            elif isinstance(value, ast.AST):
                visit(value, path + [(field, None)], st)

    visit(tree, [], [])
    return out


def apply(tree, point):
    desc, lineno, path, how = point
    t = copy.deepcopy(tree)
    parent, node, last = None, t, None
    for field, i in path:
        parent, last = node, (field, i)
        node = getattr(node, field) if i is None else getattr(node, field)[i]

    def replace(new):
        field, i = last
        if i is None:
            setattr(parent, field, new)
        else:
            getattr(parent, field)[i] = new

    k = how[0]
    if k == 'cmp':
        node.ops[how[1]] = CMP[type(node.ops[how[1]])]()
    elif k in ('bin', 'aug'):
        node.op = BIN[type(node.op)]()
    elif k == 'bool':
        node.op = ast.Or() if isinstance(node.op, ast.And) else ast.And()
    elif k == 'not':
        replace(node.operand)
    elif k == 'const':
        node.value = node.value + how[1]
    elif k == 'flip':
        node.value = not node.value
    elif k == 'neg':
        node.test = ast.UnaryOp(op=ast.Not(), operand=node.test)
    elif k == 'del':
        replace(ast.Pass())
    ast.fix_missing_locations(t)
    return ast.unparse(t)


def make_tree(root, fname, source):
    os.makedirs(root)
    shutil.copytree(os.path.join(REPO, 'pybufrkit'), os.path.join(root, 'pybufrkit'),
                    ignore=shutil.ignore_patterns('__pycache__'))
    for extra in ('tests', 'setup.py', 'README.rst', 'docs'):
        if os.path.exists(os.path.join(REPO, extra)):
            os.symlink(os.path.join(REPO, extra), os.path.join(root, extra))
    with open(os.path.join(root, 'pybufrkit', fname), 'w') as f:
        f.write(source)


def run_checks(root, checks, tier='quick'):
    env = dict(os.environ, VERIF_REPO=root, VERIF_FAILFAST='1')
    res = []
    for c in checks:
        t0 = time.time()
        try:
            r = subprocess.run([os.path.join(VERIF, 'vcheck'), c, tier], env=env, capture_output=True, text=True,
                               timeout=1500)
            out, rc = r.stdout, r.returncode
        except subprocess.TimeoutExpired as e:
            out, rc = (e.stdout or b'').decode('utf8', 'replace') if isinstance(e.stdout, bytes) else (e.stdout or ''), 124
        ff = [l for l in out.splitlines() if l.startswith('FAILFAST ')]
        res.append({'check': c, 'rc': rc, 'wall': round(time.time() - t0, 1), 'failfast': ff[:1],
                    'tail': out[-300:] if rc not in (0, 1) else ''})
        if rc == 1:
            return 'killed', res
        if rc != 0:
            return 'harness-%d' % rc, res
    return 'survived', res


def main(argv):
    cmd, fname = argv[0], argv[1]
    src = open(os.path.join(REPO, 'pybufrkit', fname)).read()
    tree = ast.parse(src)
    base = ast.unparse(tree)
    pts = points(tree)
    if cmd == 'list':
        print(fname, len(pts))
        return 0
    if cmd == 'show':
        i = int(argv[2])
        print(pts[i][0], 'line', pts[i][1])
        sys.stdout.writelines(difflib.unified_diff(base.splitlines(True), apply(tree, pts[i]).splitlines(True), n=2))
        return 0
    scratch = tempfile.mkdtemp(prefix='mutsweep_', dir='/dev/shm' if os.path.isdir('/dev/shm') else None)
    try:
        if cmd == 'tests':
            i = int(argv[2])
            root = os.path.join(scratch, 'm')
            make_tree(root, fname, apply(tree, pts[i]))
            os.remove(os.path.join(root, 'tests'))
            shutil.copytree(os.path.join(REPO, 'tests'), os.path.join(root, 'tests'))
            r = subprocess.run(['/venv/bin/python', '-m', 'pytest', '-q', '-x', '-p', 'no:cacheprovider', '--timeout=900', 'tests'],
                               cwd=root, env=dict(os.environ, PYTHONPATH=root, PYTHONDONTWRITEBYTECODE='1'),
                               capture_output=True, text=True)
            print(r.stdout[-600:])
            return r.returncode
        out = argv[2]
        stride = int(argv[3]) if len(argv) > 3 else 1
        offset = int(argv[4]) if len(argv) > 4 else 0
        checks = (argv[5] if len(argv) > 5 else CHECKS_FOR[fname]).split(',')
        done = set()
        if os.path.exists(out):
            for l in open(out):
                done.add(json.loads(l)['index'])
        for i in range(offset, len(pts), stride):
            if i in done:
                continue
            mutated = apply(tree, pts[i])
            rec = {'file': fname, 'index': i, 'desc': pts[i][0], 'line': pts[i][1]}
            try:
                compile(mutated, fname, 'exec')
            except SyntaxError:
                rec['status'] = 'syntax'
            else:
                root = os.path.join(scratch, 'm%d' % i)
                make_tree(root, fname, mutated)
                rec['status'], rec['runs'] = run_checks(root, checks)
                shutil.rmtree(root, ignore_errors=True)
            with open(out, 'a') as f:
                f.write(json.dumps(rec) + '\n')
            print(rec['index'], rec['line'], rec['desc'], rec['status'],
                  [(r['check'], r['rc'], r['wall']) for r in rec.get('runs', [])][-1:], flush=True)
    finally:
        shutil.rmtree(scratch, ignore_errors=True)
    return 0


if __name__ == '__main__':
    sys.exit(main(sys.argv[1:]))
