#!/bin/bash
# Development aid: run every seeded change (seeded/*/patch.diff) against the quick check of the property it was written
# against, and every behaviour-preserving change (benign/*/patch.diff) against the checks named in its meta.json;
# scratch worktrees only (tools/seedcheck.py runw), /repo is never touched.
#   tools/seedregress.sh [lane nlanes]
cd "$(dirname "$0")/.."
lane=${1:-0}; n=${2:-1}; i=0
for d in seeded/*/; do
  i=$((i+1)); [ $((i % n)) -eq $lane ] || continue
  pid=$(python3 -c "import json;print(json.load(open('$d/meta.json'))['property'])")
  python3 tools/seedcheck.py runw $d $pid 2>&1 | tail -1
done
for d in benign/*/; do
  [ -f "$d/patch.diff" ] || continue
  i=$((i+1)); [ $((i % n)) -eq $lane ] || continue
  checks=$(python3 -c "import json;print(','.join(json.load(open('$d/meta.json')).get('ran_checks', ['C01'])))")
  python3 tools/seedcheck.py runw $d $checks 2>&1 | tail -1 | sed 's/CAUGHT-BY NONE/SILENT (as required)/; s/CAUGHT-BY/FALSE-ALARM-OR-REAL-DEFECT/'
done
