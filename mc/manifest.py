"""
Generates /verif/MANIFEST.json from the table below:  python -m mc.manifest
A property appears under 'checks' iff mc/checks/<id>.py exists; otherwise under
'not_applicable' with the reason given here (kept current by hand).
"""
import json
import os

VERIF = os.path.dirname(os.path.dirname(os.path.abspath(__file__)))

BASELINE = ('cd /repo && /venv/bin/python -m pytest -ra -q -p no:cacheprovider --timeout=900 '
            '--continue-on-collection-errors')

CHECKS = {
    'C19': dict(
        level='model_checking', design='DESIGN.md §4 C19',
        technique='exhaustive enumeration: full width x value x offset product, plus stateless deviation-bounded '
                  'choice-tree exploration (E1) of all typed field sequences, against an integer bit-string model',
        text='Every width 1..64 x boundary value x bit offset for unsigned, sign-magnitude and in-place overwrite, '
             'refusal of overflow and BitReadError past the end are enumerated completely; all field sequences up to '
             'length 3 (thorough 4) over 42 field kinds are explored with a deviation bound on values. Exhaustive '
             'inside those bounds, nothing is sampled.',
        note='Trusted: mc.ref.bits (Python int model), CPython integers. Beyond the bound: sequences longer than 4 '
             'fields, values other than the boundary lattice.'),
    'C15': dict(
        level='model_checking', design='DESIGN.md §4 C15',
        technique='exhaustive enumeration of all strings over a 12-symbol alphabet up to length 6 (thorough 8), plus '
                  'explicit-state BFS (E2) to a fixpoint over the product of the reference DFA with the real parser, '
                  'plus the complete 1-edit neighbourhood of long expressions',
        text='Acceptance, AST (separator, id, slice semantics), exception type and print/parse round trip are decided '
             'for every string of the bounded language space; the DFA product is explored to its fixpoint with probe '
             'suffixes, so acceptance behaviour is covered for every reachable parser state, not only short strings.',
        note='Trusted: mc.ref.pathlang (recogniser == DFA checked by selftest on all strings <= 6 over 11 symbols). '
             "Don't-care: first separator '.' (EBNF allows, repository tests pin rejection). Beyond the bound: ids/ints "
             'are represented by 0,7,A; strings longer than the bound are covered only through the DFA product.'),
    'C18': dict(
        level='model_checking', design='DESIGN.md §4 C18',
        technique='exhaustive enumeration of all strings over a 10-symbol alphabet up to length 7 (thorough 8) and of all '
                  'fragment sequences up to 4 (thorough 5) against a reference tokeniser; full product of message x query '
                  'x nest-level argument x pragma for the runner',
        text='Every string of the bounded script space is preprocessed by the real code and compared with the reference '
             'tokenisation (substitution, injectivity, byte-identical remainder); the ScriptRunner relations between the '
             'nesting levels, the metadata-only flag and the injected names are checked on the full product of a message '
             'pool, its queries and the argument/pragma levels.',
        note='Trusted: mc.ref.scriptlang (hand vectors). Escape-free, non-triple-quoted literals only; unterminated '
             'literals/embeds are executed but not judged (counted as undefined_skipped).'),
    'C01': dict(
        level='model_checking', design='DESIGN.md §4 C01',
        technique='stateless deviation-bounded choice-tree exploration (E1) of a template grammar x field values x '
                  'subset/compression/edition envelopes, explicit-state BFS (E2) to a fixpoint over the operator-register '
                  'model, full sweep of every bundled Table B definition and operator operand, whole sample corpus; '
                  'oracle = independent FM-94 reference codec that builds each message (expected result by construction)',
        text='Every template of the grammar G(k,c) with every choice vector of field values within the deviation bound '
             'is encoded by the reference model and decoded by the real decoder; labels, values and links must match. '
             'The operator registers (201/202/203/204/207/208/221) are explored to a fixpoint as a finite state model '
             'whose every transition is replayed on the real decoder. Exhaustive inside the stated bounds.',
        note='Trusted: reference model R (hand vectors + agreement with the implementation on >1100 real messages, '
             'selftest). Envelope of DESIGN 2.4 excluded (ambiguous FM-94 points). Floats within 4 ulp.'),
    'C02': dict(
        level='model_checking', design='DESIGN.md §4 C02',
        technique='the C01 spaces reversed (E1 choice tree over G, E2 operator-register fixpoint, Table B / operand / '
                  'F-X-Y sweeps, corpus re-encode); uncompressed bytes compared with an independently built message, '
                  'compressed data read by the reference reader and judged column by column',
        text='For every template and value vector of the bounded space the real encoder is given the values (character '
             'values short/long/None as a user would) and must produce the byte-identical message R builds, or - when '
             'compressed - columns satisfying the statement (base = minimum, width 0 iff all equal, all-ones iff missing, '
             'exact reconstruction) inside correct framing.',
        note='Trusted: reference model R. Fields wider than 50 bits with non-zero scale are outside the quantifier. '
             'Corpus messages whose exact table version is not bundled cannot be re-encoded (encoder has no fall-back).'),
    'C03': dict(
        level='model_checking', design='DESIGN.md §4 C03',
        technique='exhaustive enumeration of the boundary lattice (raw in {-1,0,1,2^w-3..2^w+1} x 6 fractional offsets) for '
                  'every bundled numeric Table B definition x 6 operator contexts x {uncompressed, compressed}; every string '
                  'length 0..w+2; E1 choice-tree exploration of generated messages and the whole corpus for the '
                  'encode/decode fixpoint',
        text='For every lattice point the real Encoder->Decoder chain must either refuse or read back within half a unit '
             '(exact rational arithmetic) or as missing exactly when the scaled integer is the all-ones pattern; '
             'uncompressed out-of-range points must be refused; every generated and corpus message must reach a byte '
             'fixpoint after one round trip with exactly equal decoded values.',
        note='Trusted: fractions arithmetic, mc.ref.tables. Fields wider than 40 bits after modification are outside the '
             'quantifier; real numbers between lattice points are represented by the 6 offsets (incl. both sides of the '
             'rounding tie).'),
    'C04': dict(
        level='model_checking', design='DESIGN.md §4 C04',
        technique='exhaustive enumeration of the full product data-bit-length 0..32 x descriptor-count form x edition '
                  '{2,3,4} x section-2 variant, with deviation-bounded (E1) declared lengths per section and total '
                  '(encoder, recomputing and honouring), surplus octets per section x trailing bytes (decoder), and every '
                  'declared length shorter than the content; oracle = independent FM-94 message builder/parser',
        text='For every structure of the product the real encoder must produce the byte-identical message the reference '
             'builder produces (recomputing), or the zero-filled / refused message when declared lengths are honoured; '
             'the real decoder must return unchanged values, the exact BUFR..7777 span and the declared section lengths '
             'for every surplus vector within the deviation bound and every trailing byte string, and must refuse every '
             'section declared shorter than its content.',
        note='Trusted: mc.ref.message (layout from FM-94). Deviation bound 1 (quick) / 2 (thorough) on simultaneous '
             'non-default declared lengths / surplus sections; data lengths beyond 32 bits repeat residues mod 16.'),
    'C08': dict(
        level='model_checking', design='DESIGN.md §4 C08',
        technique='differential E1 choice-tree exploration: programs (template grammar, C07 bitmap structures incl. '
                  'operators in force at markers, every distinct sequence of every bundled Table D >= 19, corpus) x '
                  'structure data (all replication counts / bit patterns, factor deviations) x field-value deviations, '
                  'each decoded plain / compiled / compiled-after-JSON-reload and encoded plain / compiled; unmerged '
                  'exploration of all decode orders up to length 4 (5) over a 4-program pool x cache sizes {0,1,2,8}',
        text='For every (program, input) of the bounded space the compiled decode, the decode with a template that went '
             'through to_dict/JSON/loads_compiled_template, and the compiled encode must equal the non-compiled result '
             '(values, labels, links, bytes or exception type); every history of decodes through one compiling decoder '
             'must give the fresh non-compiled result, including two programs with the same descriptor list under table '
             'versions that define an element differently.',
        note='Oracle is differential (non-compiled path, anchored to the reference model by C01/C02). Templates that open an '
             'operator inside a replication body and close it outside are outside the property.'),
    'C09': dict(
        level='model_checking', design='DESIGN.md §4 C09',
        technique='exhaustive enumeration of ALL strings of length 2 (thorough 3) over a 12-character alphabet of '
                  'quotes/escapes/markers in 5 template positions, E1 choice-tree exploration of the template grammar with '
                  'value deviations, the C07 bitmap structures, the whole corpus, and the command line; every message is '
                  'rendered 4 ways, converted back 3 ways and encoded 5 ways',
        text='For every message of the space the three conversions must reproduce the flat JSON exactly, all encodings '
             'must give identical bytes, and the nested JSON must hold every decoded value exactly once in an arrangement '
             'from which the documented traversal recovers the flat order (judged by the reference traversal).',
        note='Trusted: mc.ref.nested. The flat JSON is the comparison base (its content is C01). Messages that cannot be '
             're-encoded because their table version is not bundled are skipped (counted).'),
    'C10': dict(
        level='model_checking', design='DESIGN.md §4 C10',
        technique='exhaustive enumeration: every generated message (template x 1..3(4) subsets with pairwise different '
                  'content x compression x 4 value patterns) x ALL index sequences of length <= 3 over 0..n-1, full range, '
                  'reverse, list/tuple forms and out-of-range collections; whole multi-subset sample corpus; command line',
        text='For every (message, index collection) of the bounded product the real subset() -> Encoder -> Decoder chain '
             'must give exactly the selected source subsets (content known by construction from the reference encoder), '
             'the byte-identical message the reference builds from those subsets (uncompressed) or C02-conformant columns '
             '(compressed), unchanged identification/descriptors/compression flag, an unmodified source object (deep '
             'snapshot), and must refuse every collection containing an index outside 0..n-1.',
        note='Trusted: reference model R. Beyond the bound: more than 4 subsets in generated messages (the corpus has up to '
             'hundreds, visited with 9 collections each), collections longer than 3 (4 for one environment).'),
    'C16': dict(
        level='model_checking', design='DESIGN.md §4 C16',
        technique='exhaustive enumeration per message of every id-path that exists in its hierarchical structure (depth '
                  '<= 6, child and attribute steps) x slice deviations (at most 1, thorough 2, sliced steps from 9 slices) x '
                  '4 subset selectors + absent ids + bare ids; messages from E1 choice-tree exploration of the template '
                  'grammar (all replication counts), the C07 bitmap structures and the corpus; every query also against '
                  'the compiled decode and the other storage form',
        text='Every query of the bounded space is evaluated by the real querent and compared with the reference evaluation '
             'of the documented semantics over the nested JSON (envelope per replication, list per repetition, positions '
             'from the first repetition, document order); bare ids of ordinary elements must return every value with that '
             'label in the flat data; compressed/uncompressed and compiled/non-compiled decodes must answer identically.',
        note='Trusted: mc.ref.nested.evaluate, mc.ref.pathlang.apply_slice; the nested JSON itself is C07/C09. Paths on '
             'which the documented semantics define no value are skipped (counted). Corpus messages use the first 40 '
             '(400) id-paths with slices on the last step.'),
    'C17': dict(
        level='model_checking', design='DESIGN.md §4 C17',
        technique='exhaustive enumeration of the full product parameter name x section index x whitespace variant x '
                  'edition x section 2 x message x decode mode; every single-byte corruption of the data-section body and '
                  'section 5 of every pool message for the metadata-only decode and stream scan; sample corpus',
        text='Every %name / %k.name expression of the product is evaluated by the real querent on fully and '
             'metadata-only decoded messages and compared with the field value the FM-94 layout gives (first match = '
             'lowest section index); malformed expressions must raise MetadataExprParsingError; the metadata-only decode '
             'must equal sections 0-3 of the full decode for every corruption of the data body and cut stream messages by '
             'their declared total length.',
        note='Trusted: mc.ref.message. Names are read from definitions/*.json (names only). Two-dot and empty '
             'expressions are outside the statement.'),
    'C11': dict(
        level='model_checking', design='DESIGN.md §4 C11',
        technique='exhaustive enumeration of all streams s0 m1 s1 .. mj sj over an 8-message pool and 9 separators (full '
                  'product for j<=1, thorough j<=2; deviation-bounded non-empty separators for j=2..4), each scanned in '
                  'full and metadata-only mode without and with 5 filter expressions; split / count commands in-process',
        text='For every stream of the bounded space the real scanner must yield exactly the messages (satisfying the '
             'filter, judged on the metadata the reference builder wrote) in order with their exact bytes; payloads contain '
             'the octet-aligned bytes BUFR and 7777 in the data section and in section 2; separators include partial '
             'signatures. Cut points are known by construction.',
        note='Trusted: mc.ref.message. Separators never contain the start signature (statement). Category-11 messages in the '
             'pool have no subsets (table definitions are C20).'),
    'C12': dict(
        level='fault_enumeration', design='DESIGN.md §4 C12',
        technique='exhaustive fault enumeration: every truncation point of every pool / corpus message below a size limit '
                  '(boundary sets above it); every subset of stream positions (up to the deviation bound) damaged by every '
                  'fault of the menu (stop signature bytes, undefined element/sequence at every descriptor position, '
                  'section length +-1) x full/metadata-only x continue/stop; trailing bytes; command line',
        text='Every proper prefix must fail to decode; trailing bytes must not change the decode; in every damaged stream '
             'the undamaged messages must be delivered unchanged and in order, damaged ones never by the full scan, the scan '
             'may only end with the library error type (and must, without continue-on-error), and the command line prints '
             'an Error: line without a traceback.',
        note='The harness applies the faults, so it knows the damage. Metadata-only scanning may deliver a damaged message '
             'with its own bytes (damage invisible in that mode; C17). Prefix failures may be any exception type.'),
    'C13': dict(
        level='model_checking', design='DESIGN.md §4 C13',
        technique='stateless exhaustive exploration (E1) of ALL operation histories up to length 3 (thorough 4, 5 for one '
                  'configuration) over 17 operations (decode / failing decode / encode / query / render / re-wire on a '
                  '9-message pool using 6 table groups) on one decoder, one encoder and the process-wide table cache with '
                  'limits forced to 1, 2, 3 and compiled cache off / 1; histories are deliberately NOT merged; real tables at '
                  'the real limit 50 with > 50 groups loaded in rotated orders',
        text='Every operation of every history must give exactly the observation it gives as the first action of a fresh '
             'process (golden, computed in subprocesses and required to be reproducible); the pool pairs the same descriptor '
             'list under table versions that define an element differently, with and without local tables, a 225255 marker '
             'followed by plain use of the element, compressed data and failing decodes.',
        note='Trusted: fresh-process goldens. The histories run on a reduced copy of the bundled tables (same rows) to keep a '
             'table-group load at ~1 ms; histories longer than 4 (5) operations are beyond the bound.'),
    'C14': dict(
        level='model_checking', design='DESIGN.md §4 C14',
        technique='exhaustive enumeration: every Table B/D entry of every bundled table version; ALL FM-94-well-formed '
                  'descriptor lists up to length 6 (thorough 8) over a 9-symbol alphabet with replication nesting <= 4 '
                  'plus the X sweep 1..63; an undefined element/sequence at every reached position of every list up to '
                  'length 4 (5); the full product of table-selection parameters',
        text='For every enumerated list the tree built by the real code must equal the FM-94 ownership computed by index '
             'arithmetic and flatten back to the list; every bundled sequence must expand to the flat list a direct '
             'expansion of the JSON file gives with every element keeping its Table B row; every substituted undefined '
             'descriptor must make decoding raise UnknownDescriptor; every selection tuple must resolve to the '
             'documented fall-back key.',
        note='Trusted: mc.ref.template, mc.ref.tables. Ill-formed lists (replication past its scope) are outside FM-94. '
             'Beyond the bound: lists longer than 8 descriptors over a richer alphabet.'),
    'C20': dict(
        level='model_checking', design='DESIGN.md §4 C20',
        technique='exhaustive exploration of ALL stream histories up to length 3 (thorough 4) over 10 events (5 definition '
                  'messages incl. redefinition, the NCEP replication-only idiom and a 0-subset definition; 5 data messages) '
                  'with deviation-bounded definition contents (width/scale/reference/unit), each history scanned as one byte '
                  'stream from a reset process-wide cache; abstract state = accumulated definitions; plus the real NCEP file',
        text='For every history the reference model builds each data message with tables = bundled U definitions seen so '
             'far (later wins), so expected labels and values are known by construction; the real scanner must deliver every '
             'definition and every decodable data message with exactly those values, keep standard descriptors unchanged, '
             'and refuse data messages whose descriptors are not (yet) defined.',
        note='Trusted: mc.ref.ncep (layout A.8), mc.ref.codec. Only the NCEP layout of tests/data/prepbufr.bufr is in scope. '
             'Beyond the bound: histories longer than 4 events, more than 2 simultaneous deviations of the definition.'),
    'C05': dict(
        level='model_checking', design='DESIGN.md §4 C05',
        technique='exhaustive enumeration of ALL columns over the full raw domain (n<=3,w<=3; thorough n<=4,w<=4) per '
                  'field kind in three directions (implementation writer -> reference reader, implementation round trip, '
                  'reference writer with every legal difference width -> implementation reader), boundary lattice for '
                  'widths 5..64, and E1 choice-tree exploration of "same subsets stored both ways"',
        text='Every column of the bounded domain is written compressed by the real encoder and read by an independent '
             'reader, decoded by the real decoder, and written by the reference writer with every legal difference '
             'width for the real decoder; the same data stored compressed and uncompressed must decode identically.',
        note='Trusted: reference reader/writer (R). Columns FM-94 cannot compress (difference width > 63) and '
             'character columns with non-zero base + increments are outside the envelope.'),
    'C06': dict(
        level='model_checking', design='DESIGN.md §4 C06',
        technique='stateless choice-tree exploration (E1) over unmerged histories of earlier subsets: every assignment '
                  'of subset variants (replication counts, bitmap bits, 203 values, value deviations) to positions 1..m, '
                  'judged by the reference model applied freshly per subset and by the same subset decoded alone',
        text='For templates of G, templates ending inside an operator construct, and bitmap constructs whose base '
             'counts / bit patterns differ between subsets, every history of m<=3 subsets is decoded (and encoded) '
             'jointly; each position must equal the fresh-application expectation and the alone-decode, incl. the '
             'hierarchical view. A violation is classified leak (alone OK) or decode (alone wrong).',
        note='Trusted: R applied per subset; differential alone-decode. Histories longer than 3 subsets are beyond the bound.'),
    'C07': dict(
        level='model_checking', design='DESIGN.md §4 C07',
        technique='exhaustive enumeration of bitmap structures (base x operator chain x bitmap source x length N<=4 x '
                  'ALL 2^N patterns x follower form x separators 235000/237255/element) with deviation-bounded field '
                  'values (E1), compressed and uncompressed, subsets with different bitmaps',
        text='For every structure the reference model computes the owner of every attribute value from the expansion '
             'alone; the real decoder\'s and encoder\'s bitmap links, labels (T/F/D/R/A), 225255 coding, and the '
             'nested JSON ownership (attribute of its owner with 031021/008023/008024 meaning, each value once) must agree.',
        note='Trusted: R link computation (A.4) and nested rules (A.6). Operators 201/202/203/207 in force at bitmapped '
             'elements/markers and 204 across markers are outside the envelope (FM-94 ambiguous).'),
}

NOT_YET = 'no check exists for this property; no claim is made'


# additions of the third build round (DESIGN 13.3), appended to the text / technique of the check
EXTRA = {
    'C02': ('; bitmap structures in the encode direction with per-subset bitmaps',
            ' Bitmap structures (per-subset bitmaps and counts, marker operators, chains) are encoded too.'),
    'C04': ('', ' Bytes in front of the start signature are a deviation of the decoder part.'),
    'C06': ('; the joint decode is repeated with template compilation', ' The open-operator and bitmap families are also decoded jointly with compiled templates.'),
    'C07': ('; links also judged with template compilation', ''),
    'C08': ('; free-form programs (item lists over markers, operator brackets and loops, outside the reference envelope) x fixed '
            'data patterns judged differentially; in-process command line',
            ' Free-form programs (mc/gen/freeform.py: every item list up to a weight and nesting bound over markers, elements, '
            'operator brackets and fixed / delayed loops, also with a delayed replication before the bitmap) x six data patterns '
            'x {1, 2, 2 compressed subsets} are decoded and encoded with and without compilation; the command line is driven '
            'with and without --compiled-template-cache-max and `compile` output is loaded and executed.'),
    'C09': ('; free-form programs judged against the flat JSON', ' Free-form programs (nested 204, operators over class 31, markers in loops) are rendered four ways as well.'),
    'C10': ('; all sequences of 2 (3) subset() calls on one message object', ' Call sequences: several selections taken from one message object before any result is encoded.'),
    'C11': ('; every value of the low and middle octet of the total length', ' Streams [A, M_L, A] for total lengths L covering every value of the low and middle length octets.'),
    'C12': ('; earlier operations on the same decoder; two damaged messages of different lengths followed by others',
            ' A decoder-history part repeats every (message, fault) after 7 kinds of earlier operation on the same decoder object.'),
    'C13': ('; a second pool of messages that end or fail with operator state in force, decode options and editions',
            ' A second pool (28 operations: messages ending or failing with 201-208/203/204/221/bitmap state in force, plain probes, '
            'decode options, editions 2-4) is explored the same way; goldens and encoder inputs each come from their own fresh process.'),
    'C14': ('; request histories against two tables directories', ' Histories of table-group requests against the bundled and a private tables directory.'),
    'C16': ('; the whole slice lattice at every step and as selector; free-form programs; in-process command line',
            ' The complete slice lattice (618 slices) is applied at every step and as subset selector over sibling-rich templates; '
            'free-form programs are queried against their own nested JSON; `pybufrkit query` is driven in text and JSON modes.'),
    'C17': ('; metadata-only decoding after option histories; in-process command line',
            ' Metadata-only decoding of data-damaged messages is repeated after every history of <= 2 earlier calls (full / '
            'metadata-only, with / without ignore_value_expectation, same / other edition); `pybufrkit query %name` over files of '
            'three editions in every order.'),
    'C18': ('; alphabet of 10 symbols (backslash); in-process command line (script as argument / file / stdin, -n x pragma)', ''),
    'C19': ('', ' Refusal is enumerated for sign-magnitude and in-place overwrite overflow, past-the-end for every typed read.'),
    'C20': ('', ' The replication-only idiom is used twice inside one defined sequence, defined by a continuation message without Table A/B entries.'),
}


def build():
    props = [json.loads(l) for l in open(os.path.join(VERIF, 'properties.jsonl'))]
    checks, na = [], []
    for p in props:
        pid = p['id']
        meta = CHECKS.get(pid)
        if meta and os.path.exists(os.path.join(VERIF, 'mc', 'checks', pid.lower() + '.py')):
            checks.append({
                'property_id': pid,
                'quick_cmd': './vcheck %s quick' % pid,
                'thorough_cmd': './vcheck %s thorough' % pid,
                'evidence_file': 'evidence/%s.json' % pid,
                'replay_cmd_template': './vcheck replay {path}',
                'engine': meta.get('engine', 'mc-explorer'),
                'level_claimed': {'category': meta['level'], 'text': meta['text'] + EXTRA.get(pid, ('', ''))[1],
                                  'design_ref': meta['design'] + ', §13.3'},
                'level_note': meta['note'],
                'technique': meta['technique'] + EXTRA.get(pid, ('', ''))[0],
            })
        else:
            na.append({'property_id': pid, 'reason': (meta or {}).get('na_reason', NOT_YET)})
    man = {
        'version': 1,
        'setup_cmd': './vcheck selftest',
        'hooks': {
            'guard': 'PYBUFRKIT_VERIF',
            'enable': 'no source hooks exist: every check drives public entry points of /repo\'s working tree '
                      '(editable install; PYTHONPATH=/repo). vcheck exports PYBUFRKIT_VERIF=1, which nothing reads.',
            'baseline_off_cmd': BASELINE,
            'source_commits': [],
            'add_only': True,
        },
        'engines': [
            {'name': 'mc-explorer', 'path': 'mc/engine',
             'serves_properties': [c['property_id'] for c in checks],
             'kind_free_text': 'hand-written explicit enumeration on the real code: E1 stateless deviation-bounded '
                               'choice-tree explorer (tree.py), E2 explicit-state BFS with canonical reference-model '
                               'states (graph.py), 16-way forked sharding (pool.py), reference model R (mc/ref)'},
        ],
        'checks': checks,
        'not_applicable': na,
        'notes': 'All checks are complete enumerations of stated finite spaces run against /repo\'s working tree; '
                 'VERIF_SEED only rotates shard dispatch order (and selects a slice of the thorough-only extension in '
                 'quick where stated). Genuine defects repaired in /repo are listed in known_findings.json.',
    }
    return man


def main():
    man = build()
    path = os.path.join(VERIF, 'MANIFEST.json')
    with open(path, 'w') as f:
        json.dump(man, f, indent=1)
        f.write('\n')
    print('wrote %s: %d checks, %d not_applicable' % (path, len(man['checks']), len(man['not_applicable'])))


if __name__ == '__main__':
    main()
