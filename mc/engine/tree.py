"""
E1 -- stateless, deviation-bounded choice-tree exploration.

A scenario body is ordinary Python: ``body(ctx)`` builds one case by calling
``ctx.pick(label, n_options, kind)`` and then runs the implementation and the
oracle.  ``kind='S'`` (structure) options are all free; ``kind='D'`` options
other than option 0 (the default environment answer / default data value) cost
one *deviation*.  ``explore`` enumerates every complete choice vector whose
deviation count is <= bound (CHESS/loom shape: replay a prefix, then take
option 0 everywhere, then push every affordable alternative of every later
point).  A replayed prefix that meets a different label or an out-of-range
option is a hard error (non-determinism detector).
"""


class Nondeterminism(Exception):
    pass


class Ctx(object):
    __slots__ = ('prefix', 'points', 'choices')

    def __init__(self, prefix=()):
        self.prefix = prefix
        self.points = []   # (label, n_options, kind)
        self.choices = []

    def pick(self, label, n, kind='D'):
        i = len(self.choices)
        if i < len(self.prefix):
            lab, c = self.prefix[i]
            if lab != label or c >= n:
                raise Nondeterminism('replay diverged at point %d: recorded %r/%d, now %r with %d options'
                                     % (i, lab, c, label, n))
        else:
            c = 0
        self.points.append((label, n, kind))
        self.choices.append(c)
        return c

    def pick_from(self, label, options, kind='D'):
        return options[self.pick(label, len(options), kind)]

    def vector(self):
        return [(p[0], c) for p, c in zip(self.points, self.choices)]

    def deviations(self):
        return sum(1 for p, c in zip(self.points, self.choices) if p[2] == 'D' and c)


class Stats(object):
    __slots__ = ('nodes', 'edges', 'leaves', 'max_depth')

    def __init__(self):
        self.nodes = self.edges = self.leaves = self.max_depth = 0


def explore(body, bound, on_leaf, stats=None):
    """
    Enumerate all executions of ``body`` with at most ``bound`` deviations.
    ``on_leaf(ctx, result)`` is called once per execution.  Returns Stats
    (nodes = choice-tree nodes incl. leaves, edges = choices taken).
    """
    st = stats or Stats()
    stack = [()]
    while stack:
        prefix = stack.pop()
        ctx = Ctx(prefix)
        result = body(ctx)
        L = len(prefix)
        n = len(ctx.choices)
        if n < L:
            raise Nondeterminism('execution shorter (%d) than its recorded prefix (%d)' % (n, L))
        st.nodes += n - L + 1 if L else n + 1
        st.edges += n - L + (1 if L else 0)
        st.leaves += 1
        if n > st.max_depth:
            st.max_depth = n
        on_leaf(ctx, result)
        # cost of the prefix part
        cost = 0
        costs = []
        for (lab, k, kind), c in zip(ctx.points, ctx.choices):
            costs.append(cost)
            if kind == 'D' and c:
                cost += 1
        vec = ctx.vector()
        # push alternatives, deepest last so the simplest are run first (LIFO -> reversed)
        alts = []
        for i in range(L, n):
            lab, k, kind = ctx.points[i]
            step = 1 if kind == 'D' else 0
            if costs[i] + step > bound:
                continue
            for alt in range(1, k):
                alts.append(tuple(vec[:i]) + ((lab, alt),))
        stack.extend(reversed(alts))
    return st


def replay(body, vector):
    ctx = Ctx(tuple((l, c) for l, c in vector))
    result = body(ctx)
    if len(ctx.choices) != len(vector):
        raise Nondeterminism('replay length %d != recorded %d' % (len(ctx.choices), len(vector)))
    return ctx, result
