"""In-process driver of the command line (pybufrkit.main) with argv / stdio swapped."""
import contextlib
import io
import sys


def run_cli(argv, stdin_text=None):
    """-> (stdout text, stderr text, exception or None, exit code or None)"""
    import pybufrkit
    out, err = io.StringIO(), io.StringIO()
    old_argv, old_stdin = sys.argv, sys.stdin
    sys.argv = ['pybufrkit'] + [str(a) for a in argv]
    if stdin_text is not None:
        sys.stdin = io.StringIO(stdin_text)
    exc = code = None
    try:
        with contextlib.redirect_stdout(out), contextlib.redirect_stderr(err):
            try:
                pybufrkit.main()
            except SystemExit as e:
                code = e.code
            except BaseException as e:      # noqa: a traceback would reach the user
                exc = e
    finally:
        sys.argv, sys.stdin = old_argv, old_stdin
    return out.getvalue(), err.getvalue(), exc, code
