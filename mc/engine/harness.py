"""
Run-time harness shared by all checks: partial results from workers, the
report (evidence file, replay artefacts, known findings, exit code).
"""
import collections
import json
import os
import re
import subprocess
import sys
import time

VERIF = os.path.dirname(os.path.dirname(os.path.dirname(os.path.abspath(__file__))))
# VERIF_OUT (development aids only: tools/seedcheck.py, tools/mutsweep.py run checks against scratch trees in parallel)
# redirects evidence and replay artefacts; registered commands never set it
_OUT = os.environ.get('VERIF_OUT') or VERIF
EVIDENCE_DIR = os.path.join(_OUT, 'evidence')
REPLAY_DIR = os.path.join(_OUT, 'replays')
FINDINGS_FILE = os.path.join(VERIF, 'known_findings.json')

MAX_VIOL_KEPT = 60          # per partial; the total is still counted
MAX_SIGS_KEPT = 400
MAX_REPLAYS = 5             # replay files written per run


def jsonable(x):
    """Canonical JSON-able form (bytes -> {'$b': hex}, tuples -> lists, sets sorted)."""
    if isinstance(x, bytes):
        return {'$b': x.hex()}
    if isinstance(x, (list, tuple)):
        return [jsonable(i) for i in x]
    if isinstance(x, (set, frozenset)):
        return sorted((jsonable(i) for i in x), key=lambda v: json.dumps(v, sort_keys=True))
    if isinstance(x, dict):
        return {str(k): jsonable(v) for k, v in x.items()}
    if isinstance(x, slice):
        return {'$slice': [x.start, x.stop, x.step]}
    if isinstance(x, float) and (x != x or x in (float('inf'), float('-inf'))):
        return {'$f': repr(x)}
    if x is None or isinstance(x, (bool, int, float, str)):
        return x
    return {'$repr': repr(x)}


def unjson(x):
    if isinstance(x, list):
        return [unjson(i) for i in x]
    if isinstance(x, dict):
        if len(x) == 1:
            if '$b' in x:
                return bytes.fromhex(x['$b'])
            if '$slice' in x:
                return slice(*x['$slice'])
            if '$f' in x:
                return float(x['$f'])
        return {k: unjson(v) for k, v in x.items()}
    return x


class Partial(object):
    """What one worker (or one part) observed."""

    def __init__(self):
        self.n = collections.Counter()
        self.outcomes = set()
        self.viol = []
        self.nviol = 0
        self.samples = []
        self.hist = collections.Counter()   # free-form histogram (exception classes, ...)
        self.sigs = collections.Counter()   # violations per signature (complete, not capped)

    def outcome(self, o):
        self.outcomes.add(o)

    def sample(self, case, cap=3):
        if len(self.samples) < cap:
            self.samples.append(jsonable(case))

    def violation(self, sig, case, detail, expected=None, observed=None):
        self.nviol += 1
        first = sig not in self.sigs
        self.sigs[sig] += 1
        # the first example of every distinct signature is always kept (so that nothing hides behind the cap)
        if len(self.viol) < MAX_VIOL_KEPT or (first and len(self.sigs) <= MAX_SIGS_KEPT):
            self.viol.append({'sig': sig, 'case': jsonable(case), 'detail': detail,
                              'expected': jsonable(expected), 'observed': jsonable(observed)})

    def merge(self, other):
        self.n.update(other.n)
        self.hist.update(other.hist)
        self.outcomes |= other.outcomes
        self.nviol += other.nviol
        self.sigs.update(other.sigs)
        self.viol.extend(other.viol)
        if len(self.viol) > 4 * MAX_VIOL_KEPT:
            self.viol.sort(key=_viol_key)
            seen, keep = set(), []
            for v in self.viol:
                if len(keep) < 4 * MAX_VIOL_KEPT or v['sig'] not in seen:
                    keep.append(v)
                seen.add(v['sig'])
            self.viol = keep
        for s in other.samples:
            if len(self.samples) < 6:
                self.samples.append(s)
        return self


def merge_all(partials):
    p = Partial()
    for q in partials:
        p.merge(q)
    return p


def _viol_key(v):
    s = json.dumps(v['case'], sort_keys=True)
    return (len(s), s)


def load_findings():
    if not os.path.exists(FINDINGS_FILE):
        return {'findings': [], 'fixed': []}
    with open(FINDINGS_FILE) as f:
        return json.load(f)


class Report(object):
    def __init__(self, pid, tier, seed, level='model_checking'):
        self.pid, self.tier, self.seed, self.level = pid, tier, seed, level
        self.parts = collections.OrderedDict()
        self.assumptions = []
        self.trusted_base = []
        self.t0 = time.time()
        self.rule = ''

    def log(self, msg):
        print('[%s %s %6.1fs] %s' % (self.pid, self.tier, time.time() - self.t0, msg), flush=True)

    def add_part(self, name, partial, bounds=None, exhaustive=True, rule='', caps_hit=None, extra=None):
        if name in self.parts:
            self.parts[name]['partial'].merge(partial)
        else:
            self.parts[name] = {'partial': partial, 'bounds': bounds or {}, 'exhaustive': exhaustive,
                                'rule': rule, 'caps_hit': caps_hit or [], 'extra': extra or {},
                                't': round(time.time() - self.t0, 2)}
        p = partial
        self.log('part %-28s exec=%d nodes=%d edges=%d outcomes=%d violations=%d'
                 % (name, p.n['exec'], p.n['nodes'], p.n['edges'], len(p.outcomes), p.nviol))
        if p.nviol and os.environ.get('VERIF_FAILFAST'):
            # development aid (tools/mutsweep.py): stop at the first violating part; no evidence is written.  A known
            # finding is not a violation, so parts whose violations all match known findings do not stop the run.
            known = [f for f in load_findings().get('findings', []) if f.get('property') == self.pid]
            unk = [s for s in p.sigs if not any(f.get('part') in (None, name) and re.fullmatch(f['sig_regex'], s) for f in known)]
            if unk:
                print('FAILFAST property=%s part=%s sig=%s n=%d' % (self.pid, name, sorted(unk)[0][:160], p.nviol), flush=True)
                print('VIOLATION property=%s replay=none(failfast)' % self.pid, flush=True)
                sys.stdout.flush()
                os._exit(1)

    # ------------------------------------------------------------------
    def _confirm(self, path):
        """Re-run the replay artefact twice in fresh processes; require identical observations."""
        outs = []
        with open(path) as f:
            case = json.load(f).get('case')
        if isinstance(case, dict) and '$crash' in case:
            if True:
                # an exception that escaped from the implementation: the traceback is the artefact; replaying it means
                # re-running the check (see mc.run), which is not repeated here
                return 'violated', ['crash']
        for _ in range(2):
            r = subprocess.run([sys.executable, '-m', 'mc.run', 'replay', path], cwd=VERIF,
                               capture_output=True, text=True, timeout=600)
            line = [l for l in r.stdout.splitlines() if l.startswith('REPLAY-RESULT ')]
            outs.append(line[-1] if line else 'NO-RESULT rc=%d %s' % (r.returncode, r.stderr[-300:]))
        if outs[0] != outs[1]:
            return 'nondeterministic', outs
        try:
            res = json.loads(outs[0][len('REPLAY-RESULT '):])
        except ValueError:
            return 'nondeterministic', outs
        return ('violated' if res.get('violated') else 'not-reproduced'), outs

    def finish(self):
        findings = load_findings()
        known = [f for f in findings.get('findings', []) if f.get('property') == self.pid]
        all_viol = []
        for name, part in self.parts.items():
            for v in part['partial'].viol:
                v = dict(v)
                v['part'] = name
                all_viol.append(v)
        all_viol.sort(key=lambda v: (v['part'],) + _viol_key(v))
        total_viol = sum(part['partial'].nviol for part in self.parts.values())

        matched = collections.OrderedDict()
        unknown = []
        for v in all_viol:
            hit = None
            for f in known:
                if f.get('part') in (None, v['part']) and re.fullmatch(f['sig_regex'], v['sig']):
                    hit = f
                    break
            if hit is not None:
                matched.setdefault(hit['id'], [hit, 0])[1] += 1
            else:
                unknown.append(v)
        # violations beyond the kept cap can not be classified: treat as unknown only if nothing kept is unknown
        kept = len(all_viol)
        overflow = total_viol - kept

        rc = 0
        lines = []
        written = []
        nondet = False
        if unknown:
            os.makedirs(os.path.join(REPLAY_DIR, self.pid), exist_ok=True)
            seen_sig = set()
            for v in unknown:
                if v['sig'] in seen_sig or len(written) >= MAX_REPLAYS:
                    continue
                seen_sig.add(v['sig'])
                path = os.path.join(REPLAY_DIR, self.pid, '%s-%d.json' % (self.tier, len(written)))
                with open(path, 'w') as f:
                    json.dump({'property': self.pid, 'part': v['part'], 'sig': v['sig'], 'case': v['case'],
                               'detail': v['detail'], 'expected': v['expected'], 'observed': v['observed']},
                              f, indent=1, sort_keys=True)
                status, outs = self._confirm(path)
                if status == 'violated':
                    lines.append('VIOLATION property=%s replay=%s' % (self.pid, path))
                    print('  sig=%s\n  detail=%s' % (v['sig'], str(v['detail'])[:600]))
                    rc = 1
                elif status == 'not-reproduced':
                    # Observed during the exploration, reproducibly absent when the same case is run alone in a fresh
                    # process: the implementation's answer depended on what the exploring process had handled before
                    # (hidden state).  The wrong answer was given to a well-formed case, so it is a violation; the
                    # artefact is replayed by re-running the check (mc.run), not the single case.
                    with open(path) as f:
                        art = json.load(f)
                    art['history_dependent'] = True
                    art['tier'] = self.tier
                    with open(path, 'w') as f:
                        json.dump(art, f, indent=1, sort_keys=True)
                    lines.append('VIOLATION property=%s replay=%s' % (self.pid, path))
                    print('  sig=%s (history-dependent: not reproduced by the case alone in a fresh process)\n  detail=%s'
                          % (v['sig'], str(v['detail'])[:600]))
                    rc = 1
                else:
                    nondet = True
                    print('HARNESS-ERROR property=%s replay=%s status=%s %s' % (self.pid, path, status, outs))
                written.append(path)
        for fid, (f, cnt) in matched.items():
            print('KNOWN-FINDING: property=%s %s (%d cases this run)' % (self.pid, f['what'], cnt))
        for l in lines:
            print(l)
        if nondet and rc == 0:
            rc = 2
        # every signature seen (complete counters) must be explained by a kept example or a known finding
        allsigs = collections.Counter()
        for part in self.parts.values():
            allsigs.update(part['partial'].sigs)
        kept_sigs = {v['sig'] for v in all_viol}
        lost = [sg for sg in allsigs if sg not in kept_sigs and
                not any(re.fullmatch(f['sig_regex'], sg) for f in known)]
        if lost:
            print('HARNESS-ERROR property=%s %d violation signatures without a kept example: %r' % (self.pid, len(lost), lost[:5]))
            if rc == 0:
                rc = 2
        if overflow and not unknown and not matched:
            rc = 2

        self._write_evidence(total_viol, unknown, matched)
        self.log('done: violations=%d unknown=%d known=%d rc=%d' % (total_viol, len(unknown), len(matched), rc))
        return rc

    def _write_evidence(self, total_viol, unknown, matched):
        parts = {}
        tot = collections.Counter()
        outcomes = 0
        samples = []
        exhaustive = True
        caps = []
        for name, part in self.parts.items():
            p = part['partial']
            parts[name] = {
                'states': p.n['nodes'], 'transitions': p.n['edges'], 'executions': p.n['exec'],
                'distinct_outcomes': len(p.outcomes), 'violations': p.nviol,
                'counters': {k: v for k, v in sorted(p.n.items()) if k not in ('nodes', 'edges', 'exec')},
                'histogram': dict(sorted(p.hist.items(), key=lambda kv: str(kv[0]))),
                'bounds': part['bounds'], 'exhaustive': part['exhaustive'], 'rule': part['rule'],
                'caps_hit': part['caps_hit'], 'finished_at_s': part['t'],
                'violation_signatures': dict(p.sigs.most_common(60)),
            }
            parts[name].update(part['extra'])
            tot['nodes'] += p.n['nodes']
            tot['edges'] += p.n['edges']
            tot['exec'] += p.n['exec']
            outcomes += len(p.outcomes)
            for s in p.samples[:3]:
                samples.append({'part': name, 'case': s})
            exhaustive = exhaustive and part['exhaustive'] and not part['caps_hit']
            caps.extend('%s: %s' % (name, c) for c in part['caps_hit'])
        ev = {
            'property_id': self.pid, 'tier': self.tier, 'seed': self.seed, 'level': self.level,
            'coverage': {
                'states': max(1, tot['nodes']), 'transitions': max(1, tot['edges']),
                'traces_validated_against_impl': tot['exec'],
                'evaluations': max(1, tot['exec']), 'distinct_nontrivial': outcomes,
                'rule': self.rule, 'samples': samples or [{'note': 'no sample recorded'}],
                'exhaustive': exhaustive, 'caps_hit': caps, 'parts': parts,
                'trusted_base': self.trusted_base,
                'known_findings_matched': [{'id': fid, 'cases': cnt} for fid, (f, cnt) in matched.items()],
                'unknown_violation_sigs': sorted({v['sig'] for v in unknown})[:20],
            },
            'assumptions': self.assumptions,
            'wall_s': round(time.time() - self.t0, 2),
            'violations': total_viol,
        }
        os.makedirs(EVIDENCE_DIR, exist_ok=True)
        path = os.path.join(EVIDENCE_DIR, '%s.json' % self.pid)
        tmp = path + '.tmp'
        with open(tmp, 'w') as f:
            json.dump(ev, f, indent=1, sort_keys=True)
        os.replace(tmp, path)
        validate_evidence(path)


def validate_evidence(path):
    schema = '/root/.vp/EVIDENCE.schema.json'
    if not os.path.exists(schema):
        return
    code = ('import json,sys,jsonschema;'
            'jsonschema.validate(json.load(open(sys.argv[1])), json.load(open(sys.argv[2])))')
    for py in ('python3-vt', '/opt/veriftools/pyvenv/bin/python'):
        try:
            r = subprocess.run([py, '-c', code, path, schema], capture_output=True, text=True, timeout=60)
        except (OSError, subprocess.TimeoutExpired):
            continue
        if r.returncode != 0:
            print('EVIDENCE-INVALID %s\n%s' % (path, r.stderr[-800:]))
        return
