"""
Sharded execution over forked workers with deterministic merge.

``run_shards(fn, shards)`` calls ``fn(shard)`` for every shard in a pool of
forked workers and returns the results in shard order.  Every ``fn`` returns a
``Partial`` (see harness) that is merged by the caller.  Forking (not spawning)
keeps module-level tables that the parent already loaded.
"""
import multiprocessing as mp
import os
import signal
import sys
import traceback

NPROC = int(os.environ.get('VERIF_NPROC', '0')) or min(16, os.cpu_count() or 1)


class ExecTimeout(Exception):
    pass


def _alarm(signum, frame):
    raise ExecTimeout('per-execution wall-clock limit hit')


def with_timeout(seconds, f, *a, **kw):
    """Run f under SIGALRM; a hang becomes ExecTimeout (reported as a violation by callers)."""
    old = signal.signal(signal.SIGALRM, _alarm)
    signal.alarm(seconds)
    try:
        return f(*a, **kw)
    finally:
        signal.alarm(0)
        signal.signal(signal.SIGALRM, old)


_FN = None
_SHARDS = None


def _wrap(idx):
    # fn and shards are inherited through fork (closures and big shards need no pickling)
    try:
        return idx, _FN(_SHARDS[idx]), None
    except BaseException as e:
        crash = crash_partial(e)
        if crash is not None:
            return idx, crash, None
        return idx, None, traceback.format_exc()


def impl_origin(exc):
    """If the exception was raised inside a call into the implementation under test (a pybufrkit frame lies below the
    last frame of the checking code), return 'ExcType|file:function' of the innermost implementation frame."""
    from mc import REPO
    impl_root = os.path.join(os.path.realpath(REPO), 'pybufrkit') + os.sep
    mc_root = os.path.dirname(os.path.dirname(os.path.abspath(__file__))) + os.sep
    frames = traceback.extract_tb(exc.__traceback__)
    last_mc = max([i for i, f in enumerate(frames) if os.path.abspath(f.filename).startswith(mc_root)] or [-1])
    inner = [f for f in frames[last_mc + 1:] if os.path.realpath(f.filename).startswith(impl_root)]
    if not inner:
        return None
    f = inner[-1]
    return '%s|%s:%s' % (type(exc).__name__, os.path.basename(f.filename), f.name)


def crash_partial(exc):
    """An exception that escapes from the implementation where the check expected none is a verdict about the
    implementation (reported as a violation), not a failure of the harness."""
    if isinstance(exc, (KeyboardInterrupt, SystemExit, MemoryError)):
        return None
    origin = impl_origin(exc)
    if origin is None:
        return None
    from mc.engine.harness import Partial
    p = Partial()
    p.n['crashed_shards'] += 1
    tb = ''.join(traceback.format_exception(type(exc), exc, exc.__traceback__))[-3000:]
    p.violation('impl-crash|' + origin, {'$crash': origin}, tb)
    return p


def run_shards(fn, shards, nproc=None, chunksize=1):
    shards = list(shards)
    nproc = nproc or NPROC
    out = [None] * len(shards)
    if nproc <= 1 or len(shards) <= 1:
        for i, s in enumerate(shards):
            try:
                out[i] = fn(s)
            except Exception as e:
                out[i] = crash_partial(e)
                if out[i] is None:
                    raise
        return out
    global _FN, _SHARDS
    ctx = mp.get_context('fork')
    sys.stdout.flush()
    sys.stderr.flush()
    _FN, _SHARDS = fn, shards
    try:
        with ctx.Pool(min(nproc, len(shards))) as pool:
            for idx, res, err in pool.imap_unordered(_wrap, range(len(shards)), chunksize):
                if err is not None:
                    pool.terminate()
                    raise RuntimeError('worker failed on shard %d:\n%s' % (idx, err))
                out[idx] = res
    finally:
        _FN = _SHARDS = None
    return out


def split(items, n):
    """Deterministic round-robin split of a list into <= n non-empty shards."""
    items = list(items)
    n = max(1, min(n, len(items)))
    return [items[i::n] for i in range(n)]
