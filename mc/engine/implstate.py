"""
The few places where the harness touches state of the implementation that is not public API (process-wide table cache).
They are looked up defensively: a maintenance change that renames a private attribute must not turn a check into a
harness error -- the check then loses that lever (reported), never its verdict.
"""


def _manager():
    import pybufrkit.tables as pt
    return pt, pt.TableGroupCacheManager


def table_cache():
    """the process-wide TableGroupCache instance (whatever the class attribute holding it is called)"""
    pt, M = _manager()
    for klass in M.__mro__:
        for name, val in list(vars(klass).items()):
            if isinstance(val, pt.TableGroupCache):
                return klass, name, val
    return None, None, None


def reset_table_cache():
    """executions must start from an empty table cache: install a fresh cache object (fallback: invalidate())"""
    pt, M = _manager()
    klass, name, val = table_cache()
    if name is not None:
        setattr(klass, name, pt.TableGroupCache())
        return True
    if hasattr(M, 'invalidate'):
        M.invalidate()
        return True
    return False


def set_table_cache_limit(n):
    """force the limit of cached table groups (module constant read at call time); False if there is no such lever"""
    pt, M = _manager()
    if hasattr(pt, 'MAXIMUM_NUMBER_OF_CACHED_TABLE_GROUPS'):
        pt.MAXIMUM_NUMBER_OF_CACHED_TABLE_GROUPS = n
        return True
    cands = [k for k, v in vars(pt).items() if k.isupper() and 'CACHE' in k and isinstance(v, int) and not isinstance(v, bool)]
    if len(cands) == 1:
        setattr(pt, cands[0], n)
        return True
    return False


def cached_group_count():
    """number of table groups currently cached, or None if it cannot be told"""
    klass, name, cache = table_cache()
    if cache is None:
        return None
    import collections
    sizes = [len(v) for k, v in vars(cache).items() if isinstance(v, (dict, collections.OrderedDict)) and 'group' in k.lower()]
    if len(sizes) == 1:
        return sizes[0]
    try:
        return len(cache)
    except TypeError:
        return None
