"""mc -- model-checking machinery for pybufrkit.  REPO is the tree under test: /repo, unless VERIF_REPO names a snapshot of
it (used only for background exploration runs; registered checks and committed evidence always run against /repo)."""
import os

REPO = os.environ.get('VERIF_REPO') or '/repo'
