"""
Generator of bitmap / attribute constructs (C07, also used by C06, C09, C16).

A *structure* fixes everything except ordinary field values: the base elements,
the chain of operator constructs, every bitmap bit (per subset variant) and
every replication count.  It is compiled to a descriptor list plus, per subset,
the queue of structural values (bits, forced factors) the chooser must return.

031002 is used for every replication factor whose value is forced by the
structure (bitmap length, number of zero bits); 031001 for free counts.
"""
import itertools

from mc.gen import grammar as G

N7, NS, C2, S1, NN, N4 = G.N7, G.NS, G.C2, G.S1, G.NN, G.N4
Q7, C3 = G.Q7, G.C3
M21, M23, M24 = G.M21, G.M23, G.M24
Z8, Z16, BIT = G.Z8, G.Z16, G.BIT

# base variants: (name, descriptor list, [(kind, payload)] structural values in order, number of window elements)
# structural value kinds: ('free', value) for 031001 counts


def bases(level):
    """level 0: small set, 1: medium, 2: all.  yields (name, descs, free_counts, n_elements)"""
    out = [
        ('b1', [N7], [], 1),
        ('b2', [N7, NS], [], 2),
        ('b3', [N7, NS, C2], [], 3),
        ('bseq', [G.SEQ2, NS], [], 3),
        ('bR2', [101002, N7, NS], [], 3),
        ('bD1', [101000, Z8, N7, NS], [1], 3),       # factor (class 31) + 1 x n7 + ns
        ('bD2', [101000, Z8, N7, NS], [2], 4),
        ('bD0', [NS, 101000, Z8, N7], [0], 2),       # ns + factor, zero repetitions
        ('b4', [N7, NS, C2, S1], [], 4),
        ('b204', [204002, M21, N7, 204000, NS], [], 3),   # 031021, (A01001), 001001, 005002
        ('bstr', [S1, NN], [], 2),
    ]
    if level == 0:
        return [o for o in out if o[0] in ('b2', 'b3', 'bD1', 'bseq')]
    if level == 1:
        return [o for o in out if o[0] not in ('b4',)]
    return out


OPS = [222000, 223000, 224000, 225000, 232000]
MARK = {223000: 223255, 224000: 224255, 225000: 225255, 232000: 232255}
MEANING = {224000: M23, 225000: M24}


def construct(op, source, n, patterns, follower, qa_elem=Q7):
    """
    patterns: one bit tuple per subset variant (all of length n; ignored for 'recall').
    -> (descs, per-variant structural queues, zeros per variant)
    A queue is a list of ('bit', v) / ('forced', v) in template order.
    """
    descs = [op]
    queues = [[] for _ in patterns]
    if source == 'direct':
        descs += [101000 + n, BIT]
    elif source == 'delayed':
        descs += [101000, Z16, BIT]
        for q in queues:
            q.append(('forced', n))
    elif source == 'reuse-def':
        descs += [236000, 101000 + n, BIT]
    elif source == 'recall':
        descs += [237000]
    else:
        raise ValueError(source)
    if source != 'recall':
        for q, pat in zip(queues, patterns):
            q.extend(('bit', b) for b in pat)
    zeros = [sum(1 for b in pat if b == 0) for pat in patterns]
    if op in MEANING:
        descs.append(MEANING[op])
    f = qa_elem if op == 222000 else MARK[op]
    if follower == 'fixed':
        assert len(set(zeros)) == 1
        descs += [f] * zeros[0]
    elif follower == 'replicated':
        assert len(set(zeros)) == 1
        if zeros[0]:
            descs += [101000 + zeros[0], f]
    else:   # 'delayed'
        descs += [101000, Z16, f]
        for q, z in zip(queues, zeros):
            q.append(('forced', z))
    return descs, queues, zeros


def patterns(n):
    return list(itertools.product((0, 1), repeat=n))


def chain1(level, nvariants=1):
    """yields (name, descs, queues per variant, free counts)"""
    nmax = 2 if level == 0 else (3 if level == 1 else 4)
    for bname, bdescs, free, nel in bases(level):
        for op in OPS:
            for source in ('direct', 'delayed', 'reuse-def'):
                for n in range(1, min(nmax, nel) + 1):
                    pats = patterns(n)
                    combos = itertools.product(pats, repeat=nvariants)
                    for combo in combos:
                        if nvariants > 1 and len(set(combo)) == 1:
                            continue
                        forms = ['delayed'] if nvariants > 1 and len({p.count(0) for p in combo}) > 1 else \
                            ['fixed', 'delayed'] + (['replicated'] if level > 0 else [])
                        for form in forms:
                            d, qs, zeros = construct(op, source, n, combo, form)
                            name = '%s|%d.%s.%d.%s.%s' % (bname, op // 1000, source, n,
                                                          '/'.join(''.join(map(str, p)) for p in combo), form)
                            yield name, bdescs + d, qs, free


SEPARATORS = [('', []), ('235', [235000]), ('237255', [237255]), ('elem', [NN]), ('235+elem', [235000, N4])]


def chain2(level, nvariants=1):
    """two constructs; the second one reuses the window (same n) unless a 235000 separates them"""
    nmax = 2 if level == 0 else 3
    blist = [b for b in bases(level) if b[0] in (('b2', 'bD1') if level == 0 else ('b2', 'b3', 'bD1', 'bseq', 'b204'))]
    for bname, bdescs, free, nel in blist:
        for op1 in OPS:
            for src1 in ('direct', 'reuse-def') + (('delayed',) if level > 0 else ()):
                for n in range(1, min(nmax, nel) + 1):
                    for pat1 in patterns(n):
                        d1, q1, z1 = construct(op1, src1, n, [pat1] * nvariants, 'delayed' if level > 0 else 'fixed')
                        for sname, sdescs in SEPARATORS:
                            for op2 in OPS:
                                for src2 in ('direct', 'recall', 'reuse-def'):
                                    if src2 == 'recall' and (src1 != 'reuse-def' or sname in ('235', '237255', '235+elem')):
                                        continue       # recall needs a kept bitmap (237000 after cancel: envelope)
                                    if '235' in sname:
                                        # new window relative to the second operator: count the elements before it.
                                        # everything emitted so far that is an element: keep n2 small and valid
                                        n2s = [1, 2] if level > 0 else [1]
                                    else:
                                        n2s = [n]
                                    for n2 in n2s:
                                        pats2 = [pat1] if src2 == 'recall' else patterns(n2)
                                        if level == 0 and src2 != 'recall':
                                            pats2 = pats2[:2] + pats2[-1:]
                                        for pat2 in pats2:
                                            d2, q2, z2 = construct(op2, src2, n2, [pat2] * nvariants, 'fixed')
                                            qs = [a + b for a, b in zip(q1, q2)]
                                            name = '%s|%d.%s.%s|%s|%d.%s.%s' % (
                                                bname, op1 // 1000, src1, ''.join(map(str, pat1)), sname,
                                                op2 // 1000, src2, ''.join(map(str, pat2)))
                                            yield name, bdescs + d1 + sdescs + d2, qs, free


def wrapped(structs, reps=2, cancel=True, delayed=False):
    """the whole structure (base + constructs) placed inside an outer replication that runs `reps` times within one
    subset: bitmap definition, back references and attribute linking happen once per repetition.  With cancel=True
    every repetition ends with 235000, so each bitmap refers to the elements of its own repetition (unambiguous);
    without it the back reference of the first repetition stays defined (FM-94) -- used only where the oracle is
    differential.  Structural queues and free counts are repeated per repetition."""
    for name, descs, queues, free in structs:
        body = list(descs) + ([235000] if cancel else [])
        x = len(body)
        if x > 63:
            continue
        head = [100000 + x * 1000, Z8] if delayed else [100000 + x * 1000 + reps]
        if free and isinstance(free[0], (list, tuple)):
            f2 = [([reps] if delayed else []) + list(f) * reps for f in free]
        else:
            f2 = ([reps] if delayed else []) + list(free) * reps
        yield ('%s|x%d%s%s' % (name, reps, 'c' if cancel else '', 'd' if delayed else ''), head + body,
               [list(q) * reps for q in queues], f2)


# ------------------------------------------------------------------------------------------
# nested delayed replications whose counts differ between subsets while the expanded descriptor lists may coincide
def _block_vectors(maxo, maxi):
    out = []
    for o in range(maxo + 1):
        for inner in itertools.product(range(maxi + 1), repeat=o):
            out.append((o,) + inner)
    return out


def nested_delayed(blocks=2, maxo=2, maxi=1, nvariants=2, colliding_only=False, elem=None):
    """`blocks` consecutive constructs  1 03 000 031001 [1 01 000 031001 E]  (a delayed replication of a delayed
    replication of one element).  A subset is a count vector (outer count, then one inner count per outer repetition, per
    block).  Different vectors can expand to the same descriptor sequence (031001 031001 E 031001 031001 for (2,1,0 | 0)
    and (1,1 | 1,0)), so the flat descriptor list does not determine the structure.
    yields (name, descs, queues, free) with free = one count list per subset variant."""
    e = elem or N7
    descs = []
    for _ in range(blocks):
        descs += [103000, Z8, 101000, Z8, e]
    descs += [NS]
    bv = _block_vectors(maxo, maxi)
    vecs = [sum(t, ()) for t in itertools.product(bv, repeat=blocks)]

    def ids(v):
        out, k = [], 0
        for _ in range(blocks):
            o = v[k]
            k += 1
            out.append('f')
            for _r in range(o):
                out.append('f')
                out.extend('e' * v[k])
                k += 1
        return ''.join(out)
    for combo in itertools.product(vecs, repeat=nvariants):
        if len(set(combo)) < 2 and nvariants > 1:
            continue
        same = len({ids(v) for v in combo}) == 1
        if colliding_only and not same:
            continue
        name = 'nd%d|%s.%s' % (blocks, 'same-ids' if same else 'other-ids', '/'.join(''.join(map(str, v)) for v in combo))
        yield name, descs, [[] for _ in combo], [list(v) for v in combo]


def trailing_class33(level=0):
    """a finished quality-information block followed, after an element of another class, by class-33 elements used as
    ORDINARY elements (no bitmap governs them: they are plain members of the template, not attributes)"""
    tails = [('q', [NS, Q7]), ('cq', [NN, C3, Q7]), ('q-then-plain', [NS, Q7, N7]), ('q-first', [Q7, NS]),
             ('235-q', [235000, Q7, NS])]             # an operator ends the run of quality values like any other descriptor
    for name, descs, queues, free in chain1(level):
        if not name.startswith(('b2|', 'b3|')):
            continue
        op = name.split('|')[1].split('.')[0]
        form = name.rsplit('.', 1)[1]
        if form != 'fixed' or '.direct.' not in name:
            continue
        for tname, tail in tails:
            if tname == 'q-first' and op == '222':
                continue      # a class-33 element directly after the quality values would continue the run
            yield '%s|tail-%s' % (name, tname), descs + tail, queues, free


def trailing_class33_after_chain(level=0):
    """quality values (222000) followed by a marker construct, then a class-33 element as ordinary member: the marker
    operator has ended the run of quality values"""
    for name, descs, queues, free in chain2(level):
        parts = name.split('|')
        if not parts[0] in ('b2',) or not parts[1].startswith('222.') or parts[2] != '' or parts[3].startswith('222.'):
            continue
        yield name + '|tail-q-first', descs + [Q7, NS], queues, free
        yield name + '|tail-c3', descs + [C3], queues, free
