"""
Scenario helpers shared by the codec checks: a chooser that turns the reference
encoder's field requests into E1 choice points, construction of the message, and
the comparison of the implementation's decode with the expectation.
"""
import contextlib
import io

from mc.ref import codec, message, tables
from mc.ref.compare import same_value

FACTOR_OPTS = {31000: [1, 0], 31001: [1, 0, 2], 31002: [2, 1]}
FACTOR_OPTS_THOROUGH = {31000: [1, 0], 31001: [1, 0, 2, 3], 31002: [2, 1, 3]}
REFDEF_OPTS = [-5, 0, 6]


def raw_options(w):
    o = [1 if w > 1 else 0, 0, (1 << w) - 2, None, 1 << (w - 1)]
    if w == 1:
        o = [0, 1]
    out = []
    for x in o:
        if x is not None and (x < 0 or x >= (1 << w) - (1 if w > 1 else 0)):
            continue
        if x not in out:
            out.append(x)
    return out


def str_options(n):
    o = [b'A' * n, b' ' * n, None, b'B' * (n + 1), b'\xe9' + b'x' * (n - 1), (b'\'"\\ ' * n)[:n], b'']
    out = []
    for x in o:
        if x not in out:
            out.append(x)
    return out


def column_patterns(w, n):
    """columns of n raws for a w-bit unsigned field; first is the default (all equal)"""
    mx = (1 << w) - (2 if w > 1 else 1)
    base = 1 if w > 1 else 0
    pats = [[base] * n]
    if n > 1:
        pats.append([min(i, mx) for i in range(n)])                       # distinct / increasing
        pats.append([0] + [mx] * (n - 1))                                 # full range
        if w > 1:
            pats.append([base] + [None] + [base] * (n - 2))               # equal values with a hole
            pats.append([None] * (n - 1) + [0])
            pats.append([mx, None] + [max(0, mx - 1)] * (n - 2))
    if w > 1:
        pats.append([None] * n)
    out = []
    for p in pats:
        if p not in out:
            out.append(p)
    return out


def str_column_patterns(nb, n):
    a, b = b'A' * nb, b'B' * nb
    pats = [[a] * n]
    if n > 1:
        pats.append([a] + [b] * (n - 1))
        pats.append([a, None] + [a] * (n - 2))
        pats.append([b' ' * nb] + [b'\xe9' * nb] * (n - 1))
    pats.append([None] * n)
    return pats


class Chooser(object):
    """Maps the reference encoder's field requests to choice points of an E1 context."""

    def __init__(self, ctx, nsub, compressed, thorough=False, nbinc_choice=False, factor_kind='S',
                 share_structure=False, struct_nbinc=False):
        self.ctx, self.nsub, self.comp = ctx, nsub, compressed
        self.fopts = FACTOR_OPTS_THOROUGH if thorough else FACTOR_OPTS
        self.nbinc_choice = nbinc_choice
        self.factor_kind = factor_kind
        self.share = share_structure       # uncompressed: all subsets take subset 0's structure data
        self.struct_nbinc = struct_nbinc   # compressed: structure columns (constant by nature) may be written the long way
        self.struct = {}

    def __call__(self, info):
        ctx = self.ctx
        kind, w, role = info['kind'], info['width'], info.get('role')
        tag = '%s.%d' % ('c' if self.comp else 's%d' % info['subset'], info['index'])
        if role in ('factor', 'bit') or kind == 'refdef':
            if role == 'factor':
                opts = self.fopts[info['desc']]
            elif role == 'bit':
                opts = [0, 1]
            else:
                opts = [o for o in REFDEF_OPTS if abs(o) < (1 << (w - 1))]
            if self.share and not self.comp and info['subset'] > 0:
                v = self.struct[info['index']]
            else:
                v = opts[ctx.pick('st.' + tag, len(opts), self.factor_kind)]
                self.struct[info['index']] = v
            if self.comp and self.struct_nbinc and kind != 'refdef':
                k = [0, 1, 3][ctx.pick('nbs.' + tag, 3, 'D')]
                if k:
                    return [v] * self.nsub, ('force', k)
            return [v] * self.nsub if self.comp else v
        if kind == 'str':
            nb = w // 8
            if self.comp:
                pats = str_column_patterns(nb, self.nsub)
                return pats[ctx.pick('col.' + tag, len(pats), 'D')]
            opts = str_options(nb)
            return opts[ctx.pick('v.' + tag, len(opts), 'D')]
        # unsigned: num, code, assoc, skip
        if self.comp:
            pats = column_patterns(w, self.nsub)
            col = pats[ctx.pick('col.' + tag, len(pats), 'D')]
            if self.nbinc_choice and len(set(col)) > 1:
                extra = [0, 1, 2, 7][ctx.pick('nb.' + tag, 4, 'S')]
                return col, ('extra', extra)
            return col
        opts = raw_options(w)
        return opts[ctx.pick('v.' + tag, len(opts), 'D')]


_TABLES = {}


def tables_for(version=33, local=None):
    key = (version, local)
    if key not in _TABLES:
        _TABLES[key] = tables.load(version, local)
    return _TABLES[key]


def build_message(ctx, descs, nsub=1, compressed=False, edition=4, version=33, sec2=None, thorough=False,
                  nbinc_choice=False, share_structure=False, meta=None, struct_nbinc=False):
    """-> (bytes, spec, expected subsets, notes) ; raises codec.RefError if the template is outside the model"""
    B, D = tables_for(version)
    ch = Chooser(ctx, nsub, compressed, thorough, nbinc_choice, share_structure=share_structure, struct_nbinc=struct_nbinc)
    buf, subs, notes, nbincs = codec.encode(B, D, descs, nsub, compressed, ch)
    m = {'master_table_version': version}
    if meta:
        m.update(meta)
    spec = message.Spec(edition=edition, meta=m, sec2=sec2, descs=descs, nsub=nsub, compressed=compressed)
    b, info = message.build(spec, buf)
    return b, spec, subs, notes


def impl_decode(decoder, b, **kw):
    """-> ('ok', [(labels, values, links)], msg) or ('exc', type name, message)"""
    with contextlib.redirect_stderr(io.StringIO()):
        try:
            msg = decoder.process(b, **kw)
        except Exception as e:
            return 'exc', type(e).__name__, str(e)
    td = msg.template_data.value
    out = []
    for si in range(len(td.decoded_values_all_subsets)):
        out.append(([str(x) for x in td.decoded_descriptors_all_subsets[si]],
                    list(td.decoded_values_all_subsets[si]),
                    dict(td.bitmap_links_all_subsets[si])))
    return 'ok', out, msg


def compare_subsets(impl_subs, ref_subs):
    """-> None or (sig, detail)"""
    if len(impl_subs) != len(ref_subs):
        return 'subset-count', 'implementation has %d subsets, expected %d' % (len(impl_subs), len(ref_subs))
    for si, ((il, iv, ik), r) in enumerate(zip(impl_subs, ref_subs)):
        if il != r.labels:
            k = next((j for j, (x, y) in enumerate(zip(il, r.labels)) if x != y), min(len(il), len(r.labels)))
            return 'labels', 'subset %d: labels differ at %d: %s vs expected %s' % (si, k, il[k:k + 3], r.labels[k:k + 3])
        if len(iv) != len(r.values):
            return 'value-count', 'subset %d: %d values, expected %d' % (si, len(iv), len(r.values))
        for j, (a, b) in enumerate(zip(iv, r.values)):
            if not same_value(a, b):
                return ('value:%s' % r.meta[j][0],
                        'subset %d item %d (%s, %d bits): %r, expected %r' % (si, j, r.labels[j], r.meta[j][2], a, b))
        if ik != r.links:
            return 'links', 'subset %d: links %r, expected %r' % (si, ik, r.links)
    return None


def outcome_class(ref_subs, compressed):
    """label multiset x missing pattern x compression (vacuity indicator)"""
    if not ref_subs:
        return ('empty', compressed)
    s = ref_subs[0]
    kinds = tuple(sorted(set(m[0] for m in s.meta)))
    miss = tuple(v is None for v in s.values)
    return (kinds, len(s.labels), miss, compressed, len(ref_subs))


class StructChooser(Chooser):
    """Chooser whose structural data (bitmap bits, forced factors 031002, free counts 031001) are fixed by the
    structure: queues[s] = [('bit'|'forced', v), ...] in template order for subset s, free = [counts]."""

    def __init__(self, ctx, nsub, compressed, queues, free, variant_of_subset=None, **kw):
        Chooser.__init__(self, ctx, nsub, compressed, **kw)
        self.queues = queues
        self.free = list(free)
        self.vmap = variant_of_subset or list(range(nsub))
        self.pos = {}
        self.fpos = {}

    def __call__(self, info):
        role = info.get('role')
        if role in ('bit', 'factor'):
            s = 0 if self.comp else info['subset']
            if role == 'factor' and info['desc'] == 31001:
                k = self.fpos.get(s, 0)
                self.fpos[s] = k + 1
                fr = self.free
                if fr and isinstance(fr[0], (list, tuple)):
                    fr = fr[self.vmap[s]]           # free counts differ per subset variant
                v = fr[k]
            elif role == 'factor' and info['desc'] == 31000:
                return Chooser.__call__(self, info)
            else:
                q = self.queues[self.vmap[s]]
                k = self.pos.get(s, 0)
                self.pos[s] = k + 1
                kind, v = q[k]
                if (kind == 'bit') != (role == 'bit'):
                    raise ValueError('structure queue out of step: %r for %r' % (q[k], info))
            return [v] * self.nsub if self.comp else v
        return Chooser.__call__(self, info)


def build_struct_message(ctx, descs, queues, free, nsub=1, compressed=False, variant_of_subset=None, version=33,
                         edition=4):
    B, D = tables_for(version)
    ch = StructChooser(ctx, nsub, compressed, queues, free, variant_of_subset)
    buf, subs, notes, nbincs = codec.encode(B, D, descs, nsub, compressed, ch)
    spec = message.Spec(edition=edition, meta={'master_table_version': version}, descs=descs, nsub=nsub,
                        compressed=compressed)
    b, info = message.build(spec, buf)
    return b, spec, subs, notes


def distinct_raw(info, s, w):
    """a field value that differs from its neighbours and between subsets (so that picking the wrong node shows)"""
    j = info['index']
    if info['kind'] == 'str':
        nb = w // 8
        return bytes([65 + (3 * j + 7 * s) % 26, 97 + (j + s) % 26] * nb)[:nb]
    mx = (1 << w) - 2 if w > 1 else 1
    return (1 + 5 * j + 11 * s) % (mx + 1)


class DistinctMixin(object):
    """structure data (factors, bitmap bits, 203 values) as in the base chooser; ordinary field values are not choice
    points but deterministic values that differ from item to item and from subset to subset"""

    def __call__(self, info):
        role = info.get('role')
        if role in ('bit', 'factor') or info['kind'] == 'refdef':
            return super(DistinctMixin, self).__call__(info)
        w = info['width']
        if self.comp:
            return [distinct_raw(info, s, w) for s in range(self.nsub)]
        return distinct_raw(info, info['subset'], w)


class DistinctChooser(DistinctMixin, Chooser):
    pass


class DistinctStructChooser(DistinctMixin, StructChooser):
    pass


def build_distinct_message(ctx, descs, nsub=1, compressed=False, queues=None, free=(), variant_of_subset=None,
                           share_structure=False, version=33, edition=4, thorough=False):
    B, D = tables_for(version)
    if queues is None:
        ch = DistinctChooser(ctx, nsub, compressed, thorough, share_structure=share_structure)
    else:
        ch = DistinctStructChooser(ctx, nsub, compressed, queues, free, variant_of_subset)
    buf, subs, notes, nbincs = codec.encode(B, D, descs, nsub, compressed, ch)
    spec = message.Spec(edition=edition, meta={'master_table_version': version}, descs=descs, nsub=nsub, compressed=compressed)
    b, info = message.build(spec, buf)
    return b, spec, subs, notes
