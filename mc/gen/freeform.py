"""
Free-form programs: templates built from a small structured grammar WITHOUT asking whether the reference model's
envelope (DESIGN 2.4) covers them -- nested 204, class-31 elements and markers under 201/202/207/208, operators and
markers inside fixed / 1-bit / 8-bit delayed replications, bitmaps reused across loops.  They are used only by
DIFFERENTIAL oracles that need no FM-94 reading of the bits: compiled == non-compiled (C08), four renderings ==
flat JSON (C09), query == evaluation over the nested JSON (C16).  The data section is not produced by an encoder: it
is a fixed bit pattern, long enough for whatever the template demands (surplus octets of section 4 are legal), so the
non-compiled decoder's reading of it is the base line.  Several patterns make delayed factors 0 / 1 / >=2 and bitmap
bits 0 / 1 occur.

Operators are always opened and closed inside one replication scope (the precondition of C08).
"""
from mc.ref import message
from mc.ref.bits import BitBuf

E7, E16, C2, S1, S20 = 1001, 12001, 2001, 10, 1015
Q7 = 33007

OPS = {
    '201': ([201130], [201000]),
    '202': ([202129], [202000]),
    '207': ([207001], [207000]),
    '208': ([208002], [208000]),
    '204': ([204004, 31021], [204000]),
    '204b': ([204008, 31021], [204000]),
    '203': ([203010, E16, 203255], [203000]),
}
LOOPS = {'fix2': (2, None), 'fix1': (1, None), 'del1': (0, 31000), 'del8': (0, 31001)}


def flat(items):
    """items -> descriptor list; item = int | ('op', name, body) | ('loop', name, body) | ('raw', [descs])"""
    out = []
    for it in items:
        if isinstance(it, int):
            out.append(it)
        elif it[0] == 'raw':
            out.extend(it[1])
        elif it[0] == 'op':
            o, c = OPS[it[1]]
            out.extend(o)
            out.extend(flat(it[2]))
            out.extend(c)
        elif it[0] == 'loop':
            r, factor = LOOPS[it[1]]
            body = flat(it[2])
            out.append(100000 + len(body) * 1000 + r)
            if factor:
                out.append(factor)
            out.extend(body)
    return out


def name_of(items):
    out = []
    for it in items:
        if isinstance(it, int):
            out.append('%06d' % it)
        elif it[0] == 'raw':
            out.append('.'.join('%06d' % d for d in it[1]))
        else:
            out.append('%s[%s]' % (it[1], name_of(it[2])))
    return ' '.join(out)


def item_lists(budget, depth, leaves, ops, loops, allow_empty=False):
    """every list of items of total weight <= budget (a leaf weighs 1, a bracket 1 + its body), nesting <= depth"""
    memo = {}

    def lists(b, d):
        key = (b, d)
        if key in memo:
            return memo[key]
        out = [[]]
        if b > 0:
            firsts = []
            for l in leaves:
                firsts.append((l, 1))
            if d > 0:
                for body_b in range(1, b):
                    for body in lists(body_b, d - 1):
                        if not body or weight(body) != body_b:
                            continue
                        for o in ops:
                            firsts.append((('op', o, body), 1 + body_b))
                        for lo in loops:
                            firsts.append((('loop', lo, body), 1 + body_b))
            for f, w in firsts:
                for rest in lists(b - w, d):
                    out.append([f] + rest)
        memo[key] = out
        return out

    res = lists(budget, depth)
    return res if allow_empty else [r for r in res if r]


def weight(items):
    return sum(1 if (isinstance(it, int) or it[0] == 'raw') else 1 + weight(it[2]) for it in items)


# bitmap headers: (name, descriptors after the two base elements, marker descriptor)
HEADERS = [
    ('222', [222000, 236000, 101004, 31031], Q7),
    ('223', [223000, 236000, 101004, 31031], 223255),
    ('224', [224000, 236000, 101004, 31031, 8023], 224255),
    ('225', [225000, 236000, 101004, 31031, 8024], 225255),
    ('232', [232000, 236000, 101004, 31031], 232255),
]


BASES = {
    # name: (descriptors before the operator, number of bitmap bits)
    'A': ([E16, S1, E7, S1], 4),
    # a delayed replication BEFORE the bitmap: which elements the bits designate then differs from subset to subset
    'B': ([E16, 101000, 31001, E7, S1], 2),
}


def marker_programs(budget, depth, headers=HEADERS, ops=('201', '208', '202'), loops=('fix2', 'del1', 'del8'), extra_leaves=(E7,),
                    base='A'):
    """[(name, descriptor list)]: a numeric and a character base element, a bitmap definition over them, then every item
    list (budget, depth) over {marker, element, operator brackets, loops}: the marker of the numeric element is subject to
    201/202, the marker of the character element to 208"""
    out = []
    for hname, hdr, mk in headers:
        # after 222000 the run of quality values starts at the first class-33 element and ends at the first element of
        # another class (a delayed replication factor included).  A loop body that holds quality values moves that status
        # inside a replication scope that did not open it (and may run zero times), which is outside C08's precondition
        # (state opened and closed within one replication scope): the 222 programs use class-33 leaves only, outside
        # loops (222000 inside replications is covered by the structured bitmap parts)
        for tail in item_lists(budget, depth, [mk] if mk == Q7 else [mk] + list(extra_leaves), ops, loops):
            if not _has(tail, mk):
                continue
            if mk == Q7 and _in_loop(tail, Q7):
                continue
            pre, nbits = BASES[base]
            hdr2 = [100000 + 1000 + nbits if d == 101004 else d for d in hdr]
            out.append(('mk%s%s| %s' % (hname, '' if base == 'A' else base, name_of(tail)), pre + hdr2 + flat(tail)))
    return out


def _in_loop(items, leaf, inside=False):
    for it in items:
        if isinstance(it, int) or it[0] == 'raw':
            if inside and it == leaf:
                return True
            continue
        if _in_loop(it[2], leaf, inside or it[0] == 'loop'):
            return True
    return False


def _has(items, leaf):
    for it in items:
        if it == leaf:
            return True
        if not isinstance(it, int) and it[0] in ('op', 'loop') and _has(it[2], leaf):
            return True
    return False


def operator_programs(budget, depth, ops=('201', '202', '207', '208', '204', '204b', '203'), loops=('fix2', 'del1', 'del8'),
                      leaves=(E7, E16, C2, S1, 31021)):
    """[(name, descriptor list)]: every item list over elements, a class-31 element, operator brackets (nested 204, 203
    blocks) and loops"""
    out = []
    for tail in item_lists(budget, depth, list(leaves), ops, loops):
        if all(isinstance(it, int) for it in tail):
            continue
        out.append(('op| %s' % name_of(tail), flat(tail)))
    return out


def focused_programs(budget, depth, loops=('fix2', 'del1')):
    """deeper item lists over ONE operator family at a time (nested associated fields; width and scale; 207 with 201;
    208 over strings; 203 blocks) -- nesting and repetition of the same operator is where bracket bookkeeping goes wrong"""
    out, seen = [], set()
    for ops, leaves in ((('204', '204b'), (E16,)), (('201', '202'), (E16,)), (('207', '201'), (E16,)), (('208',), (S1,)),
                        (('203',), (E16,)), (('204', '201'), (E16,)), (('204', '208'), (S1,))):
        for nm, d in operator_programs(budget, depth, ops, loops, leaves):
            if tuple(d) not in seen:
                seen.add(tuple(d))
                out.append(('f' + nm, d))
    return out


def _lcg(n, seed):
    x, out = seed, bytearray()
    for _ in range(n):
        x = (x * 1103515245 + 12345) & 0x7fffffff
        out.append((x >> 16) & 0xff)
    return bytes(out)


NBYTES = 700
PATTERNS = [
    ('zeros', bytes(NBYTES)),
    ('x01', b'\x01' * NBYTES),
    ('x55', b'\x55' * NBYTES),
    ('small', bytes(b & 0x13 for b in _lcg(NBYTES, 7))),
    ('mixed', bytes(b & 0x4b for b in _lcg(NBYTES, 99))),
    ('x80', b'\x80\x40\x20\x10\x08\x04\x02\x01' * (NBYTES // 8)),
]


def build(descs, pattern, nsub=1, compressed=False, edition=4):
    buf = BitBuf()
    data = PATTERNS[pattern][1]
    buf.put(int.from_bytes(data, 'big'), len(data) * 8)
    return message.build(message.Spec(edition=edition, descs=descs, nsub=nsub, compressed=compressed), buf)[0]
