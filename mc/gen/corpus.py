"""The sample corpus: every message of tests/data/*.bufr and tests/benchmark_data/*.bufr, cut out by an
R-side scan (start signature + declared total length + stop signature)."""
from mc import REPO
import glob
import os

TESTS = os.path.join(REPO, 'tests')
SKIP_FILES = {'prepbufr.bufr',            # needs in-stream table definitions (C20)
              'multi_invalid_messages.bufr'}   # deliberately damaged (C12)


def scan(s):
    """-> list of message byte strings found in s (declared length must end in 7777)"""
    out = []
    i = 0
    while True:
        i = s.find(b'BUFR', i)
        if i < 0:
            return out
        n = int.from_bytes(s[i + 4:i + 7], 'big')
        if n >= 12 and s[i + n - 4:i + n] == b'7777':
            out.append(s[i:i + n])
            i += n
        else:
            i += 1


def files(include_special=False):
    fs = sorted(glob.glob(os.path.join(TESTS, 'data', '*.bufr')) +
                glob.glob(os.path.join(TESTS, 'benchmark_data', '*.bufr')))
    return [f for f in fs if include_special or os.path.basename(f) not in SKIP_FILES]


def messages(max_bytes=None):
    """yields (name, index in file, bytes); duplicates (same bytes) are yielded once"""
    seen = set()
    for f in files():
        with open(f, 'rb') as fh:
            s = fh.read()
        for k, m in enumerate(scan(s)):
            if max_bytes is not None and len(m) > max_bytes:
                continue
            if m in seen:
                continue
            seen.add(m)
            yield os.path.relpath(f, TESTS), k, m
