"""
Template grammar G(k, c) (DESIGN 3.2) over bundled Table B/D version 33.

A template is a list of *items*; an item is a tuple:
  ('e', id)                       plain element or sequence
  ('R', r, body)                  fixed replication, r repetitions
  ('D', factor_id, body)          delayed replication
  ('op', open_id, body, close_id) operator bracket (close_id None = left open)
  ('raw', ids)                    descriptors emitted as they are (205YYY, 206YYY + element, ...)
flatten(items) gives the descriptor list with every X computed by the FM-94 rule
(an inner replication counts 1 + (1 for a delayed factor) + its own X, a sequence counts 1).
Everything is ordered simplest first.
"""
import itertools

N1, N3, N4, N7, NS, NN = 31000, 1004, 11106, 1001, 5002, 7002
C2, C3, F2, F18 = 2001, 33003, 2103, 8042
S1, S9 = 10, 1011
Q7 = 33007
M21, M23, M24 = 31021, 8023, 8024
Z1, Z8, Z16 = 31000, 31001, 31002
BIT = 31031
LOCAL = 54001
UNDEF_E, UNDEF_S = 63254, 363254
SEQ2, SEQ3, SEQLL, SEQD = 301001, 301011, 301021, 301062

SIGMA_E = [N7, NS, C2, S1, SEQ2, N1, N3, N4, NN, C3, F2, F18, S9, SEQ3, SEQLL, SEQD]
SIGMA_E_SMALL = [N7, NS, C2, S1, SEQ2, N1]
SIGMA_B = [N7, NS, C2, S1, SEQ2]


def count(item):
    k = item[0]
    if k == 'e':
        return 1
    if k == 'R':
        return 1 + sum(count(i) for i in item[2])
    if k == 'D':
        return 2 + sum(count(i) for i in item[2])
    if k == 'op':
        return 1 + sum(count(i) for i in item[2]) + (1 if item[3] is not None else 0)
    if k == 'raw':
        return len(item[1])
    raise ValueError(item)


def flatten(items):
    out = []
    for item in items:
        k = item[0]
        if k == 'e':
            out.append(item[1])
        elif k == 'R':
            x = sum(count(i) for i in item[2])
            out.append(100000 + x * 1000 + item[1])
            out.extend(flatten(item[2]))
        elif k == 'D':
            x = sum(count(i) for i in item[2])
            out.append(100000 + x * 1000)
            out.append(item[1])
            out.extend(flatten(item[2]))
        elif k == 'op':
            out.append(item[1])
            out.extend(flatten(item[2]))
            if item[3] is not None:
                out.append(item[3])
        elif k == 'raw':
            out.extend(item[1])
        else:
            raise ValueError(item)
    return out


def E(i):
    return ('e', i)


def bodies(sigma=SIGMA_B, maxlen=2):
    for n in range(1, maxlen + 1):
        for t in itertools.product(sigma, repeat=n):
            yield [E(i) for i in t]


def bracket_kinds():
    """(name, maker(body) -> item) for constructs that take a body"""
    ks = [
        ('R1', lambda b: ('R', 1, b)), ('R2', lambda b: ('R', 2, b)),
        ('Dz8', lambda b: ('D', Z8, b)), ('Dz1', lambda b: ('D', Z1, b)), ('Dz16', lambda b: ('D', Z16, b)),
        ('201+2', lambda b: ('op', 201130, b, 201000)), ('201-2', lambda b: ('op', 201126, b, 201000)),
        ('202+1', lambda b: ('op', 202129, b, 202000)), ('202-1', lambda b: ('op', 202127, b, 202000)),
        ('207.1', lambda b: ('op', 207001, b, 207000)), ('207.2', lambda b: ('op', 207002, b, 207000)),
        ('208.1', lambda b: ('op', 208001, b, 208000)), ('208.2', lambda b: ('op', 208002, b, 208000)),
        ('204.2', lambda b: ('op', 204002, [E(M21)] + b, 204000)),
    ]
    return ks


def constructs(nested=False, thorough=False):
    """yield (name, item).  Flat-body constructs first, then (if nested) depth-2 constructs."""
    bk = bracket_kinds()
    for name, mk in bk:
        for b in bodies():
            yield name, mk(b)
    # 221: only elements in the covered range; classes outside 1-9/31 are absent from the data
    for y in (1, 2):
        for b in bodies([N7, N4, C3, S9], 2):
            yield '221.%d' % y, ('op', 221000 + y, b, None)
    # 203: definition list, then a body that uses them, then optional cancel
    for bits in (4, 10):
        for defs in ([NS], [N7, NS]):
            for b in bodies():
                for cancel in (203000, None):
                    tail = ([('raw', [cancel])] if cancel else [])
                    yield '203.%d' % bits, ('op', 203000 + bits,
                                            [E(d) for d in defs] + [('raw', [203255])] + b + tail, None)
    for y in (1, 3):
        yield '205.%d' % y, ('raw', [205000 + y])
    yield '206.5L', ('raw', [206005, LOCAL])
    yield '206.7e', ('raw', [206007, N7])
    yield '235', ('raw', [235000])
    yield '237255', ('raw', [237255])
    if nested:
        outer = [k for k in bk if k[0] in ('R2', 'Dz8', '201+2', '207.1', '204.2', '202-1', '208.2')]
        inner = [k for k in bk if k[0] != '204.2']
        for oname, omk in outer:
            for iname, imk in inner:
                for x in SIGMA_B:
                    yield oname + '/' + iname, omk([imk([E(x)])])


def templates(k=2, c=1, sigma=None, nested=False, thorough=False):
    """G(k, c): <= k top-level items of which <= c constructs.  yields (name, items)"""
    sigma = sigma or SIGMA_E
    cons = list(constructs(nested=nested, thorough=thorough))
    simple = [('e%06d' % i, E(i)) for i in sigma]
    for n in range(1, k + 1):
        for ncons in range(0, min(c, n) + 1):
            for pos in itertools.combinations(range(n), ncons):
                pools = [cons if i in pos else simple for i in range(n)]
                for combo in itertools.product(*pools):
                    yield '+'.join(x[0] for x in combo), [x[1] for x in combo]
