"""
R.scriptlang -- tokeniser for pybufrkit scripts as the property describes them:
code, '...' and "..." literals (escape free), # comments to end of line, and
${expr} embedded queries that are recognised only outside literals and comments.
A string with an unterminated literal or an unterminated ${ is outside the
language (returns None), and so is one with a backslash inside a literal (escapes are
not part of the property); anywhere else -- code, comment, expression -- a backslash
is an ordinary character (in particular it does not continue a comment).
"""


def tokenise(s):
    """-> (pieces, exprs): pieces = text chunks and ('V', k) markers; exprs[k] = trimmed expression"""
    out = []
    exprs = []
    i, n = 0, len(s)
    while i < n:
        c = s[i]
        if c in '\'"':
            j = s.find(c, i + 1)
            if j < 0:
                return None
            if '\\' in s[i:j + 1]:
                return None           # literals are escape free: a backslash inside a literal is outside the language
            out.append(s[i:j + 1])
            i = j + 1
        elif c == '#':
            j = s.find('\n', i)
            if j < 0:
                out.append(s[i:])
                i = n
            else:
                out.append(s[i:j + 1])
                i = j + 1
        elif c == '$' and i + 1 < n and s[i + 1] == '{':
            j = s.find('}', i + 2)
            if j < 0:
                return None
            e = s[i + 2:j].strip()
            if e not in exprs:
                exprs.append(e)
            out.append(('V', exprs.index(e)))
            i = j + 1
        else:
            out.append(c)
            i += 1
    return out, exprs
