"""
R.bits -- bit strings as a Python int plus a length.  MSB first.  No bitstring,
no byte-alignment special cases.  Written from FM-94 (unsigned big-endian
fields, sign-magnitude for new reference values, CCITT IA5 octets).
"""


class RefBitsError(Exception):
    pass


class BitBuf(object):
    """Append-only bit buffer."""
    __slots__ = ('v', 'n')

    def __init__(self):
        self.v = 0
        self.n = 0

    def put(self, value, width):
        if width < 0 or value < 0 or value >> width:
            raise RefBitsError('value %r does not fit %r bits' % (value, width))
        self.v = (self.v << width) | value
        self.n += width

    def put_signmag(self, value, width):
        mag = abs(value)
        if width < 1 or mag >> (width - 1):      # width 1: the sign bit alone, magnitude 0
            raise RefBitsError('sign-magnitude value %r does not fit %r bits' % (value, width))
        self.put(((1 if value < 0 else 0) << (width - 1)) | mag, width)

    def put_bytes(self, b):
        self.put(int.from_bytes(b, 'big'), 8 * len(b))

    def put_ones(self, width):
        self.put((1 << width) - 1, width)

    def pad_to_octet(self):
        r = (-self.n) % 8
        if r:
            self.put(0, r)
        return r

    def overwrite(self, value, width, bitpos):
        if value >> width or bitpos + width > self.n:
            raise RefBitsError('bad overwrite')
        shift = self.n - bitpos - width
        mask = ((1 << width) - 1) << shift
        self.v = (self.v & ~mask) | (value << shift)

    def to_bytes(self):
        if self.n % 8:
            raise RefBitsError('not octet aligned')
        return self.v.to_bytes(self.n // 8, 'big')

    def extend(self, other):
        self.v = (self.v << other.n) | other.v
        self.n += other.n


class BitSrc(object):
    """Bit reader over bytes."""
    __slots__ = ('v', 'n', 'pos')

    def __init__(self, data):
        self.n = len(data) * 8
        self.v = int.from_bytes(data, 'big')
        self.pos = 0

    def get(self, width):
        if self.pos + width > self.n:
            raise RefBitsError('read of %d bits at %d past end %d' % (width, self.pos, self.n))
        r = (self.v >> (self.n - self.pos - width)) & ((1 << width) - 1) if width else 0
        self.pos += width
        return r

    def get_signmag(self, width):
        v = self.get(width)
        mag = v & ((1 << (width - 1)) - 1)
        return -mag if v >> (width - 1) else mag

    def get_bytes(self, nbytes):
        return self.get(8 * nbytes).to_bytes(nbytes, 'big') if nbytes else b''


def fit_bytes(b, nbytes):
    """FM-94 character field: left justified, blank filled, truncated to the field."""
    return b[:nbytes] + b' ' * max(0, nbytes - len(b))
