"""R.codec validation: hand vectors + agreement with the implementation on the real sample corpus."""
import contextlib
import io
import os


def hand_vectors():
    from mc.ref import codec, tables
    from mc.ref.bits import BitBuf
    B, D = tables.load(33)
    bad = 0

    def dec(descs, bits, nsub=1, comp=False):
        b = BitBuf()
        for v, w in bits:
            b.put(v, w)
        b.pad_to_octet()
        subs, notes, pos = codec.decode(B, D, descs, nsub, comp, b.to_bytes())
        return [(s.labels, s.values, s.links) for s in subs]

    # 001001 WMO block 7 bits; 012101 temperature K scale 2, 16 bits
    r = dec([1001, 12101], [(11, 7), (27315, 16)])
    if r != [(['001001', '012101'], [11, 273.15], {})]:
        print('selftest: vector 1', r); bad += 1
    # 201 +2 bits on 001001; 202 +1 scale on 012101; missing
    r = dec([201130, 1001, 201000, 202129, 12101, 202000, 1001], [(300, 9), (27315, 16), (127, 7)])
    if r[0][1][0] != 300 or abs(r[0][1][1] - 27.315) > 1e-9 or r[0][1][2] is not None:
        print('selftest: vector 2', r); bad += 1
    # 204 associated field of 2 bits with 031021, delayed replication of 2, 205 text
    r = dec([204002, 31021, 1001, 204000, 101000, 31001, 1002, 205002],
            [(1, 6), (3, 2), (5, 7), (2, 8), (7, 10), (8, 10), (0x4142, 16)])
    if r[0][0] != ['031021', 'A01001', '001001', '031001', '001002', '001002', '205002'] or \
            r[0][1] != [1, None, 5, 2, 7, 8, b'AB']:
        print('selftest: vector 3', r); bad += 1
    # 222000 + bitmap 1 0 over (001001, 001002) -> quality 033007 applies to 001002 (index 1)
    r = dec([1001, 1002, 222000, 101002, 31031, 33007], [(1, 7), (2, 10), (1, 1), (0, 1), (50, 7)])
    if r[0][2] != {5: 1} or r[0][0][2] != '222000' or r[0][1][2] != 0:
        print('selftest: vector 4', r); bad += 1
    # 225000 difference statistics: width+1, reference -2^width ; 224000 first order
    r = dec([1001, 225000, 101001, 31031, 8024, 225255], [(1, 7), (0, 1), (2, 6), (128 + 5, 8)])
    if r[0][0][-1] != 'D01001' or r[0][1][-1] != 5 or r[0][2] != {4: 0}:
        print('selftest: vector 5', r); bad += 1
    # 203: new reference value -5 (sign-magnitude, 4 bits) for 001002, then value
    r = dec([203004, 1002, 203255, 1002, 203000, 1002], [(8 + 5, 4), (10, 10), (10, 10)])
    if r[0][1] != [-5, 5, 10]:
        print('selftest: vector 6', r); bad += 1
    # 207001: width +4, scale +1, ref x10 ; 206 skip ; 208 strings ; 221
    r = dec([207001, 7002, 207000, 206005, 54001, 208002, 1011, 208000, 221002, 12101, 1001],
            [(401, 20), (9, 5), (0x4141, 16), (3, 7)])
    if r[0][0] != ['007002', 'S54001', '001011', '001001'] or r[0][1] != [1, 9, b'AA', 3]:
        print('selftest: vector 7', r); bad += 1
    # compressed: 2 subsets, 001001 values 3 and 5 (base 3, nbinc 2), missing for second of next field
    r = dec([1001, 1002], [(3, 7), (2, 6), (0, 2), (2, 2), (9, 10), (1, 6), (0, 1), (1, 1)], nsub=2, comp=True)
    if [x[1] for x in r] != [[3, 9], [5, None]]:
        print('selftest: vector 8', r); bad += 1
    # round trip through the encoder port
    vals = iter([11, 27315])
    buf, subs, notes, nb = codec.encode(B, D, [1001, 12101], 1, False, lambda info: next(vals))
    buf.pad_to_octet()
    if buf.to_bytes() != bytes([0b00010110, 0b11010101, 0b01100110]) or subs[0].values != [11, 273.15]:
        print('selftest: vector 9', buf.to_bytes().hex(), subs[0].values); bad += 1
    return bad


def corpus_agreement(max_bytes=20000):
    from mc.gen import corpus
    from mc.ref import codec, message, tables
    from mc.ref.compare import same_value
    from pybufrkit.decoder import Decoder
    dec = Decoder()
    n = bad = 0
    for name, k, m in corpus.messages(max_bytes=max_bytes):
        with contextlib.redirect_stderr(io.StringIO()):
            try:
                msg = dec.process(m, wire_template_data=False)
            except Exception:
                continue
        p = message.parse(m)
        key = msg.table_group_key
        B, D = tables.load_sn(key.wmo_tables_sn, key.local_tables_sn)
        subs, notes, pos = codec.decode(B, D, p.descs, p.nsub, p.compressed, p.data)
        td = msg.template_data.value
        n += 1
        for si, s in enumerate(subs):
            il = [str(x) for x in td.decoded_descriptors_all_subsets[si]]
            iv = td.decoded_values_all_subsets[si]
            if il != s.labels or len(iv) != len(s.values) or \
                    any(not same_value(a, b) for a, b in zip(iv, s.values)) or \
                    td.bitmap_links_all_subsets[si] != s.links:
                bad += 1
                print('selftest: corpus disagreement %s #%d subset %d' % (name, k, si))
                break
    print('selftest: corpus agreement on %d messages, %d disagreements' % (n, bad))
    return bad


def run():
    bad = hand_vectors()
    print('selftest: codec hand vectors, %d problems' % bad)
    if os.environ.get('VERIF_SELFTEST_CORPUS', '1') != '0':
        bad += corpus_agreement()
    return bad == 0
