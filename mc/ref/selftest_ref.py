"""Self-validation of the reference model R (run by `vcheck selftest`)."""
import itertools


def run():
    ok = True
    for f in (_pathlang, _scriptlang, _codec):
        try:
            r = f()
        except ImportError:
            continue
        ok = r and ok
    return ok


def _pathlang():
    from mc.ref import pathlang as R
    alpha = '@[]:/.>-0A '
    n = bad = 0
    for k in range(0, 6):
        for t in itertools.product(alpha, repeat=k):
            s = ''.join(t)
            n += 1
            if R.dontcare(s) != (R.dfa_state(s) == R.DC) and not (R.dontcare(s) and R.dfa_state(s) == R.DEAD):
                # DOTFIRST is a prefix property: DFA reaches DC exactly then (or dies later on garbage: still DC)
                bad += 1
            if R.dontcare(s):
                continue
            if R.accepts(s) != R.dfa_accepts(s):
                bad += 1
                if bad < 5:
                    print('selftest: pathlang recogniser/DFA disagree on %r' % s)
    # hand-written vectors
    vec = {'/001001': (R.ALL, [('/', '001001', R.ALL)]),
           '@[0] / 103008 / 001001[:].008321[::]': (('i', 0), [('/', '103008', R.ALL), ('/', '001001', R.ALL),
                                                                ('.', '008321', R.ALL)]),
           '@[-2] / 001011[-10]': (('i', -2), [('/', '001011', ('i', -10))]),
           '001001': (R.ALL, [('>', '001001', R.ALL)]),
           '@[0::10]/301011/004001': (('s', 0, None, 10), [('/', '301011', R.ALL), ('/', '004001', R.ALL)])}
    for s, exp in vec.items():
        if R.parse(s) != exp:
            print('selftest: pathlang AST wrong for %r: %r' % (s, R.parse(s)))
            bad += 1
    for s in ('', '/', '@', '@[0]', '1[', '1[0:', '@[0]1', '1[0][1]', '1[0:1:2:3]', '/-', '[0]', '1//2', '@[]/1', '1[]'):
        if R.accepts(s):
            print('selftest: pathlang accepts %r' % s)
            bad += 1
    if R.apply_slice(('i', -1), [1, 2, 3]) != [3] or R.apply_slice(('i', -2), [1, 2, 3]) != [2] \
            or R.apply_slice(('i', 5), [1]) != [] or R.apply_slice(('i', -4), [1, 2, 3]) != []:
        print('selftest: apply_slice wrong')
        bad += 1
    print('selftest: pathlang %d strings, %d problems' % (n, bad))
    return bad == 0


def _scriptlang():
    from mc.ref import scriptlang as S
    bad = 0
    vec = [("a=${001001}", ['a', '=', ('V', 0)], ['001001']),
           ("'${x}' ${ x } # ${y}\n${x}", ["'${x}'", ' ', ('V', 0), ' ', '# ${y}\n', ('V', 0)], ['x']),
           ('"it\'s" $x ${%n}', ['"it\'s"', ' ', '$', 'x', ' ', ('V', 0)], ['%n'])]
    for s, out, exprs in vec:
        r = S.tokenise(s)
        if r is None or r[0] != out or r[1] != exprs:
            print('selftest: scriptlang wrong for %r: %r' % (s, r))
            bad += 1
    for s in ("'abc", '${x', '"'):
        if S.tokenise(s) is not None:
            print('selftest: scriptlang accepts %r' % s)
            bad += 1
    return bad == 0


def _codec():
    from mc.ref import selftest_codec
    return selftest_codec.run()
