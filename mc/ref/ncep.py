"""
R.ncep -- NCEP-style in-stream table definitions (DESIGN A.8), written from the layout of the messages:
a message of data category 11 with one subset and the descriptor list

   1 03 000 031001 000001 000002 000003 | 1 01 000 031001 300004 | 1 05 000 031001 300003 205064 1 01 000 031001 000030

carries Table A lines, Table B rows (F, X, Y, name line 1+2, unit, scale sign, scale, reference sign,
reference, width -- all blank-padded character fields) and Table D rows (F, X, Y, name, member ids).
Nothing here imports pybufrkit.
"""
from mc.ref import codec, message, tables

DEF_DESCS = [103000, 31001, 1, 2, 3, 101000, 31001, 300004, 105000, 31001, 300003, 205064, 101000, 31001, 30]


def fxy(d):
    return '%d' % (d // 100000), '%02d' % ((d // 1000) % 100), '%03d' % (d % 1000)


def definition_values(a_entries, b_entries, d_entries, fixed_a=False):
    """flat value list of a definition message in template order.
    a_entries: [(entry, line1, line2)]; b_entries: [(id, name, unit, scale, reference, width)];
    d_entries: [(id, name, [member ids])]"""
    v = [] if fixed_a else [len(a_entries)]
    for e in a_entries:
        v += [s.encode() for s in e]
    v.append(len(b_entries))
    for d, name, unit, scale, ref, width in b_entries:
        f, x, y = fxy(d)
        v += [f.encode(), x.encode(), y.encode(), name[:32].encode(), name[32:64].encode(), unit.encode(),
              b'+' if scale >= 0 else b'-', str(abs(scale)).encode(), b'+' if ref >= 0 else b'-', str(abs(ref)).encode(),
              str(width).encode()]
    v.append(len(d_entries))
    for d, name, members in d_entries:
        f, x, y = fxy(d)
        v += [f.encode(), x.encode(), y.encode(), name.encode(), len(members)]
        v += [('%06d' % m).encode() for m in members]
    return v


def queue_chooser(values):
    it = iter(values)

    def ch(info):
        return next(it)
    return ch


def build_definition(a_entries, b_entries, d_entries, edition=3, nsub=1, master_version=13, fixed_a=False):
    """-> bytes of the definition message (character fields blank padded by the reference encoder).
    fixed_a: the Table A part is a FIXED replication (1 03 00n, no count in the data) - needs at least one Table A line"""
    B, D = tables.load(master_version)
    fixed_a = fixed_a and len(a_entries) > 0
    vals = definition_values(a_entries, b_entries, d_entries, fixed_a)
    DEF = ([103000 + len(a_entries)] + DEF_DESCS[2:]) if fixed_a else DEF_DESCS
    if nsub == 0:
        from mc.ref.bits import BitBuf
        buf = BitBuf()
    else:
        buf, subs, notes, nb = codec.encode(B, D, DEF, 1, False, queue_chooser(vals))
    spec = message.Spec(edition=edition, meta={'data_category': 11, 'data_local_subcategory': 1, 'originating_centre': 7,
                                               'originating_subcentre': 3, 'master_table_version': master_version,
                                               'local_table_version': 1, 'year': 0, 'month': 0, 'day': 0, 'hour': 0,
                                               'minute': 0, 'second': 0},
                        descs=DEF, nsub=nsub, compressed=False)
    return message.build(spec, buf)[0]


def apply_definitions(B, D, b_entries, d_entries):
    """tables after the definitions: later rows override, everything else keeps its meaning"""
    B2, D2 = dict(B), dict(D)
    for d, name, unit, scale, ref, width in b_entries:
        B2[d] = (name.rstrip(), unit.strip(), scale, ref, width)
    for d, name, members in d_entries:
        D2[d] = list(members)
    return B2, D2


def data_spec(descs, nsub=1, compressed=False, edition=3, master_version=13):
    return message.Spec(edition=edition, meta={'data_category': 243, 'originating_centre': 7, 'originating_subcentre': 3,
                                               'master_table_version': master_version, 'local_table_version': 0},
                        descs=descs, nsub=nsub, compressed=compressed)
