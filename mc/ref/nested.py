"""
R.nested -- the hierarchical view (DESIGN A.6) and query evaluation over it (A.7),
operating on the nested-JSON *shape* (dicts with id / value / members / factor /
attributes / virtual).  Nothing here imports pybufrkit.
"""
from mc.ref.compare import same_value


class Undefined(Exception):
    """the path designates something the documented semantics give no value for"""


def is_replication(n):
    return 'value' not in n and n['id'][:1] == '1' and 'members' in n


def flatten_nodes(nodes, out=None):
    """Documented traversal: depth first over members and factors; for each value node first its
    non-virtual attributes, then the node itself.  -> list of value-node dicts in flat order."""
    if out is None:
        out = []
    for n in nodes:
        if 'value' in n:
            _emit(n, out)
        else:
            if 'factor' in n:
                _emit(n['factor'], out)
            if 'members' in n:
                if n['id'][:1] == '1':
                    for rep in n['members']:
                        flatten_nodes(rep, out)
                else:
                    flatten_nodes(n['members'], out)
    return out


def _emit(n, out):
    for a in n.get('attributes', []):
        if not a.get('virtual'):
            out.append(a)
    out.append(n)


def conservation(nested_subset, labels, values):
    """every decoded value exactly once, in an arrangement from which the flat order is recovered"""
    flat = flatten_nodes(nested_subset)
    if len(flat) != len(values):
        return 'hierarchical view holds %d non-virtual values, flat data %d' % (len(flat), len(values))
    for i, (n, l, v) in enumerate(zip(flat, labels, values)):
        if n['id'] != l:
            return 'flat position %d is %s in the hierarchical view, %s in the flat data' % (i, n['id'], l)
        if not same_value(n['value'], v):
            return 'flat position %d (%s): value %r in the hierarchical view, %r flat' % (i, l, n['value'], v)
    return None


def replication_shape(nodes):
    """A.6: a replication node holds one member list per repetition -- as many lists as its count says (YYY of a fixed
    replication, the factor value of a delayed one), all with the same sequence of member ids. -> None or description"""
    for n in nodes:
        if is_replication(n):
            want = n['factor']['value'] if 'factor' in n else int(n['id'][3:6])
            reps = n['members']
            if len(reps) != want:
                return 'replication %s shows %d repetitions, its count is %r' % (n['id'], len(reps), want)
            # marker values (T/F/D/R + the id of the element they stand for) differ between repetitions by nature
            ids = [[m['id'][:1] if m['id'][:1] in 'TFDR' else m['id'] for m in rep] for rep in reps]
            if any(i != ids[0] for i in ids):
                return 'replication %s: repetitions differ in their member ids: %r' % (n['id'], ids[:3])
            for rep in reps:
                e = replication_shape(rep)
                if e:
                    return e
        elif 'members' in n and 'value' not in n:
            e = replication_shape(n['members'])
            if e:
                return e
    return None


def ownership(nested_subset, labels, values, links, meaning_of=None):
    """
    links: {attribute flat index -> owner flat index} (bitmap-driven attributes).
    Every linked value must appear as a *virtual* attribute of exactly its owner; associated fields
    (labels 'A.....') must be a non-virtual attribute of the element that follows them.
    meaning_of: {attribute flat index -> (meaning label, meaning value)} to check 031021/008023/008024.
    -> None or description
    """
    flat = flatten_nodes(nested_subset)
    if len(flat) != len(values):
        return 'hierarchical view is not a rearrangement of the flat data'
    pos = {id(n): i for i, n in enumerate(flat)}
    # expected virtual attributes per owner, in order of appearance
    want = {}
    for a in sorted(links):
        want.setdefault(links[a], []).append(a)
    for i, n in enumerate(flat):
        attrs = n.get('attributes', [])
        virt = [a for a in attrs if a.get('virtual')]
        nonv = [a for a in attrs if not a.get('virtual')]
        exp = want.get(i, [])
        if meaning_of and i in meaning_of and labels[i][:1] != 'A':
            # a first-order / difference statistics value carries its own 008023 / 008024 meaning
            ml, mv = meaning_of[i]
            own = [a for a in virt if a['id'] == ml]
            if len(own) != 1 or not same_value(own[0]['value'], mv):
                return '%s at %d does not carry its meaning %s=%r' % (labels[i], i, ml, mv)
            virt = [a for a in virt if a is not own[0]]
        if labels[i][:1] == 'A':
            # associated field: must carry its meaning (virtual) and nothing else
            continue
        if len(virt) != len(exp):
            return ('%s at flat position %d has %d bitmap-driven attributes %r, expected %d (%r)'
                    % (labels[i], i, len(virt), [a['id'] for a in virt], len(exp), [labels[a] for a in exp]))
        for a, ai in zip(virt, exp):
            if a['id'] != labels[ai] or not same_value(a['value'], values[ai]):
                return ('%s at %d: attribute %s=%r, expected %s=%r'
                        % (labels[i], i, a['id'], a['value'], labels[ai], values[ai]))
            if meaning_of and ai in meaning_of:
                ml, mv = meaning_of[ai]
                sub = [x for x in a.get('attributes', []) if x['id'] == ml]
                if len(sub) != 1 or not same_value(sub[0]['value'], mv) or not sub[0].get('virtual'):
                    return '%s at %d: attribute %s lacks its meaning %s=%r' % (labels[i], i, a['id'], ml, mv)
        if i > 0 and labels[i - 1][:1] == 'A':
            if len(nonv) != 1 or nonv[0] is not flat[i - 1]:
                return '%s at %d does not own the associated field that precedes it' % (labels[i], i)
            if meaning_of and (i - 1) in meaning_of:
                ml, mv = meaning_of[i - 1]
                sub = [x for x in nonv[0].get('attributes', []) if x['id'] == ml]
                if len(sub) != 1 or not same_value(sub[0]['value'], mv):
                    return 'associated field at %d lacks its meaning %s=%r' % (i - 1, ml, mv)
        elif nonv:
            return '%s at %d has a non-virtual attribute %s but no associated field precedes it' % (labels[i], i, nonv[0]['id'])
    return None


# -------------------------------------------------------------------------------------------
# query evaluation (A.7).  comps: list of (separator, id, slice) with slice as in mc.ref.pathlang
def _apply(matches, slc):
    """the matches a slice selects, kept in document order (a negative step selects, it does not reorder)"""
    from mc.ref.pathlang import apply_slice
    keep = sorted(apply_slice(slc, list(range(len(matches)))))
    return [matches[i] for i in keep]


def evaluate(node, comps):
    sep, ident, slc = comps[0]
    rest = comps[1:]
    if sep == '/':
        if 'members' not in node:
            raise Undefined('no members')
        if is_replication(node):
            reps = node['members']
            if not reps:
                return []
            pos = _apply([i for i, m in enumerate(reps[0]) if m['id'] == ident], slc)
            if not pos:
                return []
            env = []
            for rep in reps:
                sub = []
                for p in pos:
                    sub += _proceed(rep[p], rest)
                if sub:
                    env.append(sub)
            return [env] if env else []
        ms = _apply([m for m in node['members'] if m['id'] == ident], slc)
        out = []
        for m in ms:
            out += _proceed(m, rest)
        return out
    if sep == '.':
        if 'factor' not in node and 'attributes' not in node:
            raise Undefined('no attributes')
        cands = []
        if 'factor' in node:
            cands.append(node['factor'])
        cands += node.get('attributes', [])
        ms = _apply([m for m in cands if m['id'] == ident], slc)
        out = []
        for m in ms:
            out += _proceed(m, rest)
        return out
    raise Undefined('descendant steps are not modelled')


def _proceed(n, rest):
    if rest:
        return evaluate(n, rest)
    if 'value' not in n:
        raise Undefined('valueless node')
    return [n['value']]


def id_paths(nodes, maxdepth=6):
    """every id-path that exists in the structure (by id, first occurrence) through / and . steps"""
    out = []

    def paths(ns, prefix, depth):
        seen = set()
        for n in ns:
            if n['id'] in seen:
                continue
            seen.add(n['id'])
            p = prefix + [('/', n['id'])]
            out.append(p)
            sub(n, p, depth)

    def sub(n, p, depth):
        if depth >= maxdepth:
            return
        if 'members' in n:
            if is_replication(n):
                if n['members']:
                    paths(n['members'][0], p, depth + 1)
            else:
                paths(n['members'], p, depth + 1)
        at = []
        if 'factor' in n:
            at.append(n['factor'])
        at += n.get('attributes', [])
        seen = set()
        for a in at:
            if a['id'] in seen:
                continue
            seen.add(a['id'])
            q = p + [('.', a['id'])]
            out.append(q)
            sub(a, q, depth + 1)
    paths(nodes, [], 1)
    return out
