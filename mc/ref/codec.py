"""
R.codec -- one interpreter of FM-94 section 4 over a *flat descriptor list*
(DESIGN Appendix A.2-A.5).  It is driven by a port that either reads the fields
from bits (decode) or obtains raw values from a chooser and writes them (encode),
so that encoded messages carry their expected decoding by construction.

Nothing here imports pybufrkit or bitstring.

Result per subset: labels, values, raws, links {attribute index -> owner index},
meta (kind, descriptor id, width in bits) per item.
"""
from collections import deque
from fractions import Fraction

from mc.ref.bits import BitBuf, BitSrc, fit_bytes
from mc.ref.tables import kind_of


class RefError(Exception):
    """the descriptor list / data are outside what FM-94 defines (e.g. unknown descriptor)"""


class UnknownDescriptor(RefError):
    pass


def ones(w):
    return (1 << w) - 1


def user_value(raw, scale, ref):
    """(raw + ref) / 10^scale: int when scale == 0 else the float nearest to the exact rational"""
    if raw is None:
        return None
    if scale == 0:
        return raw + ref
    return float(Fraction(raw + ref) / (Fraction(10) ** scale))


def min_nbinc(maxdiff):
    w = 1
    while maxdiff > (1 << w) - 2:
        w += 1
    return w


# --------------------------------------------------------------------------------------
# ports
class DecPort(object):
    def __init__(self, data, nsub, compressed):
        self.src = BitSrc(data)
        self.nsub, self.comp = nsub, compressed
        self.nbincs = []           # difference widths seen
        self.columns = []          # compressed: (kind, width, base raw, nbinc, [increments]) per item

    def uint(self, w, info):
        s = self.src
        if not self.comp:
            v = s.get(w)
            return [None if (w > 1 and v == ones(w)) else v]
        base = s.get(w)
        nb = s.get(6)
        self.nbincs.append(nb)
        col = ('u', w, base, nb, [])
        self.columns.append(col)
        if w > 1 and base == ones(w):
            base = None
        if nb == 0:
            return [base] * self.nsub
        out = []
        for _ in range(self.nsub):
            inc = s.get(nb)
            col[4].append(inc)
            if inc == ones(nb):
                out.append(None)
            else:
                if base is None:
                    raise RefError('compressed: missing base with a non-missing increment')
                out.append(base + inc)
        return out

    def sint(self, w, info):
        s = self.src
        if not self.comp:
            return [s.get_signmag(w)]
        base = s.get_signmag(w)
        nb = s.get(6)
        self.nbincs.append(nb)
        self.columns.append(('i', w, base, nb, []))
        if nb != 0:
            raise RefError('compressed: new reference values must be shared by all subsets')
        return [base] * self.nsub

    def string(self, nbytes, info):
        s = self.src
        if not self.comp:
            return [s.get_bytes(nbytes)]
        base = s.get_bytes(nbytes)
        nb = s.get(6)
        self.nbincs.append(nb)
        col = ('s', nbytes * 8, base, nb, [])
        self.columns.append(col)
        if nb == 0:
            return [base] * self.nsub
        if base != b'\0' * nbytes:
            raise RefError('compressed string column with non-zero base and increments (outside the envelope)')
        for _ in range(self.nsub):
            col[4].append(s.get_bytes(nb))
        return list(col[4])

    def const(self, info):
        if self.comp:
            self.columns.append(('c', 0, 0, 0, []))
        return [0] * (self.nsub if self.comp else 1)


class EncPort(object):
    """chooser(info) -> raw (uncompressed: one raw; compressed: list of nsub raws, or (list, nbinc_spec)).
    raw None = missing.  nbinc_spec: ('extra', k), ('abs', n) or ('force', n): like 'abs', and a constant column is written
    with difference width n and zero increments instead of width 0."""

    def __init__(self, chooser, nsub, compressed):
        self.buf = BitBuf()
        self.chooser, self.nsub, self.comp = chooser, nsub, compressed
        self.nbincs = []
        self.str_inputs = {}       # (item index, subset) -> the character value as the user supplied it

    def _col(self, info):
        r = self.chooser(info)
        spec = ('extra', 0)
        if isinstance(r, tuple):
            r, spec = r
        if len(r) != self.nsub:
            raise ValueError('chooser returned %d raws for %d subsets' % (len(r), self.nsub))
        return list(r), spec

    def uint(self, w, info):
        b = self.buf
        if not self.comp:
            r = self.chooser(info)
            if r is not None and w > 1 and r == ones(w):
                r = None
            if r is None:
                if w <= 1:
                    raise ValueError('a 1-bit field cannot be missing')
                b.put_ones(w)
            else:
                b.put(r, w)
            return [r]
        col, spec = self._col(info)
        col = [None if (r is not None and w > 1 and r == ones(w)) else r for r in col]
        present = [r for r in col if r is not None]
        if not present:
            if w <= 1:
                raise ValueError('a 1-bit field cannot be missing')
            b.put_ones(w)
            b.put(0, 6)
            self.nbincs.append(0)
        elif len(present) == len(col) and min(present) == max(present) and not (spec[0] == 'force' and spec[1] > 0):
            b.put(present[0], w)
            b.put(0, 6)
            self.nbincs.append(0)
        elif len(present) == len(col) and min(present) == max(present):
            # a constant column written the long way: base, a non-zero difference width, all-zero increments (legal; a
            # writer is not obliged to notice that the subsets agree)
            b.put(present[0], w)
            b.put(spec[1], 6)
            self.nbincs.append(spec[1])
            for r in col:
                b.put(0, spec[1])
        else:
            base = min(present)
            nb = min_nbinc(max(present) - base)
            nb = nb + spec[1] if spec[0] == 'extra' else max(nb, spec[1])        # 'abs' and 'force': at least the minimum
            if nb > 63:
                raise ValueError('difference width > 63')
            b.put(base, w)
            b.put(nb, 6)
            self.nbincs.append(nb)
            for r in col:
                if r is None:
                    b.put_ones(nb)
                else:
                    b.put(r - base, nb)
        return col

    def sint(self, w, info):
        b = self.buf
        if not self.comp:
            r = self.chooser(info)
            b.put_signmag(r, w)
            return [r]
        col, spec = self._col(info)
        if min(col) != max(col):
            raise ValueError('new reference values must be shared in compressed data')
        b.put_signmag(col[0], w)
        b.put(0, 6)
        self.nbincs.append(0)
        return col

    def string(self, nbytes, info):
        b = self.buf

        def octets(r):
            return b'\xff' * nbytes if r is None else fit_bytes(r, nbytes)
        if not self.comp:
            r0 = self.chooser(info)
            self.str_inputs[(info['index'], info['subset'])] = r0
            r = octets(r0)
            b.put_bytes(r)
            return [r]
        col, spec = self._col(info)
        for k, r0 in enumerate(col):
            self.str_inputs[(info['index'], k)] = r0
        col = [octets(r) for r in col]
        if all(c == col[0] for c in col):
            b.put_bytes(col[0])
            b.put(0, 6)
            self.nbincs.append(0)
        else:
            b.put_bytes(b'\0' * nbytes)
            b.put(nbytes, 6)
            self.nbincs.append(nbytes)
            for c in col:
                b.put_bytes(c)
        return col

    def const(self, info):
        return [0] * (self.nsub if self.comp else 1)


# --------------------------------------------------------------------------------------
class Item(object):
    __slots__ = ('label', 'kind', 'desc', 'width', 'raws', 'vals')

    def __init__(self, label, kind, desc, width, raws, vals):
        self.label, self.kind, self.desc, self.width, self.raws, self.vals = label, kind, desc, width, raws, vals


MARKER_PREFIX = {223: 'T', 224: 'F', 225: 'D', 232: 'R'}


class Interp(object):
    """One application of the template to one subset (uncompressed) or to all subsets (compressed)."""

    def __init__(self, B, D, port, subset=None):
        self.B, self.D, self.port, self.subset = B, D, port, subset
        self.items = []
        self.links = {}
        self.woff = 0            # 201
        self.soff = 0            # 202
        self.newref_bits = 0     # 203 defining
        self.newref = {}
        self.assoc = []          # 204 stack
        self.skip_bits = 0       # 206
        self.y207 = 0
        self.nbytes = 0          # 208
        self.dnp = 0             # 221
        self.qa = 0              # 0 none, 1 waiting for the first class 33, 2 processing
        self.bm_state = 0        # 0 none, 1 after operator, 4 waiting for bits, 5 counting
        self.bm_reuse = False
        self.n31 = 0
        self.kept_bitmap = None  # 236000
        self.window = None       # back-referenced item indices
        self.boundary = 0
        self.selected = []       # items with a zero bit
        self.sel_iter = iter(())
        self.ambiguous = []      # notes on constructs FM-94 leaves open that were met

    # -- emit helpers ------------------------------------------------------------------
    def info(self, label, kind, desc, width, **kw):
        d = {'label': label, 'kind': kind, 'desc': desc, 'width': width, 'index': len(self.items),
             'subset': self.subset}
        d.update(kw)
        return d

    def emit(self, label, kind, desc, width, raws, vals):
        self.items.append(Item(label, kind, desc, width, raws, vals))

    def f_uint(self, label, kind, desc, w, **kw):
        raws = self.port.uint(w, self.info(label, kind, desc, w, **kw))
        self.emit(label, kind, desc, w, raws, list(raws))

    # -- bitmap ------------------------------------------------------------------------
    def bitmap_step(self, d):
        if self.bm_state == 1:
            if d == 236000:
                self.bm_reuse, self.bm_state, self.n31 = True, 4, 0
            elif d == 237000:
                self.bm_state = 0
            else:
                self.bm_reuse, self.bm_state, self.n31 = False, 4, 0
        elif self.bm_state == 4:
            if d == 31031:
                self.bm_state, self.n31 = 5, self.n31 + 1
        elif self.bm_state == 5:
            if d == 31031:
                self.n31 += 1
            else:
                self.define_bitmap()
                self.bm_state = 0

    def define_bitmap(self):
        bits = []
        for it in self.items[-self.n31:]:
            if any(r != it.raws[0] for r in it.raws):
                raise RefError('compressed: bitmap differs between subsets')
            bits.append(it.raws[0])
        if self.bm_reuse:
            self.kept_bitmap = bits
        self.apply_bitmap(bits)

    def apply_bitmap(self, bits):
        if self.window is None:
            w = []
            for idx in range(self.boundary - 1, -1, -1):
                if self.items[idx].kind in ('num', 'code', 'str', 'refdef'):
                    w.insert(0, idx)
                    if len(w) == len(bits):
                        break
            self.window = w
        if len(self.window) != len(bits):
            raise RefError('bitmap of %d bits but %d elements to refer to' % (len(bits), len(self.window)))
        self.selected = [i for bit, i in zip(bits, self.window) if bit == 0]
        self.sel_iter = iter(self.selected)

    def next_selected(self):
        try:
            return next(self.sel_iter)
        except StopIteration:
            raise RefError('more attribute values than zero bits in the bitmap')

    # -- elements ----------------------------------------------------------------------
    def element(self, d, marker=None, extra_width=0, ref_override=None):
        if d not in self.B:
            raise UnknownDescriptor('%06d' % d)
        name, unit, scale, ref, nbits = self.B[d]
        X = (d // 1000) % 100
        if self.assoc and X != 31:
            self.f_uint('A%05d' % d, 'assoc', d, sum(self.assoc))
        if marker is None:
            if X == 33:
                if self.qa == 1:
                    self.qa = 2
                if self.qa == 2:
                    self.links[len(self.items)] = self.next_selected()
            elif self.qa == 2:
                self.qa = 0
        label = ('%06d' % d) if marker is None else marker + '%05d' % d
        k = kind_of(unit)
        if k == 'str':
            nb = self.nbytes or nbits // 8
            raws = self.port.string(nb, self.info(label, 'str', d, nb * 8))
            self.emit(label, 'str' if marker is None else 'marker', d, nb * 8, raws, list(raws))
        elif k == 'code':
            w = nbits + extra_width
            raws = self.port.uint(w, self.info(label, 'code', d, w, role=_role(d) if marker is None else None))
            if w > 1:
                raws = [None if r == ones(w) else r for r in raws]
            self.emit(label, 'code' if marker is None else 'marker', d, w, raws, list(raws))
        else:
            if k == 'qcode' and (self.woff or self.soff or self.y207):
                self.ambiguous.append('qualified code table %06d inside 201/202/207' % d)
            if X == 31 and (self.woff or self.soff or self.y207):
                self.ambiguous.append('class 31 element %06d inside 201/202/207' % d)
            w = nbits + extra_width + self.woff + ((10 * self.y207 + 2) // 3 if self.y207 else 0)
            sc = scale + self.soff + self.y207
            if ref_override is not None:
                ref = ref_override
            elif d in self.newref:
                ref = self.newref[d]
            ref = ref * 10 ** self.y207
            if w < 1:
                raise RefError('field width %d' % w)
            raws = self.port.uint(w, self.info(label, 'num', d, w, scale=sc, ref=ref,
                                                role=_role(d) if marker is None else None))
            self.emit(label, 'num' if marker is None else 'marker', d, w, raws,
                      [user_value(r, sc, ref) for r in raws])

    # -- main walk ---------------------------------------------------------------------
    def run(self, descs):
        work = deque(descs)
        while work:
            d = work.popleft()
            F, X, Y = d // 100000, (d // 1000) % 100, d % 1000
            factor = body = None
            if F == 1:
                if Y == 0:
                    if not work:
                        raise RefError('delayed replication without a factor')
                    factor = work.popleft()
                if X > len(work):
                    self.ambiguous.append('replication %06d runs past the end of its list' % d)
                body = [work.popleft() for _ in range(min(X, len(work)))]
            if self.dnp:
                self.dnp -= 1
                if F == 0 and not (1 <= X <= 9 or X == 31):
                    self.items_skipped = getattr(self, 'items_skipped', 0) + 1
                    continue
                # "the following YYY descriptors": an operator that only changes how later elements are read (201, 202,
                # 207, 208) is one descriptor and takes one place in the span; what a replication, a sequence or an operator
                # that produces data takes is not settled
                if F != 0 and not (F == 2 and X in (1, 2, 7, 8)):
                    self.ambiguous.append('221 covers a non-element descriptor %06d' % d)
            if self.newref_bits and F == 0:
                if d not in self.B:
                    raise UnknownDescriptor('%06d' % d)
                if kind_of(self.B[d][1]) == 'str':
                    raise RefError('new reference value for a character element')
                raws = self.port.sint(self.newref_bits, self.info('%06d' % d, 'refdef', d, self.newref_bits))
                self.newref[d] = raws[0]
                self.emit('%06d' % d, 'refdef', d, self.newref_bits, raws, list(raws))
                continue
            if self.skip_bits:
                w, self.skip_bits = self.skip_bits, 0
                self.f_uint('S%05d' % d, 'skip', d, w)
                continue
            if self.bm_state:
                self.bitmap_step(d)
            if F == 0:
                self.element(d)
            elif F == 3:
                if d not in self.D:
                    raise UnknownDescriptor('%06d' % d)
                work.extendleft(reversed(self.D[d]))          # replaced in place (A.2)
            elif F == 1:
                if factor is not None:
                    if factor in (31011, 31012):
                        raise RefError('delayed repetition (031011 / 031012) is outside the reference model')
                    if (factor // 1000) % 100 != 31:
                        self.ambiguous.append('replication factor %06d is not class 31' % factor)
                    self.element(factor)
                    it = self.items[-1]
                    if any(r != it.raws[0] for r in it.raws):
                        raise RefError('compressed: replication factor differs between subsets')
                    cnt = it.raws[0]
                    if cnt is None:
                        raise RefError('missing replication factor')
                else:
                    cnt = Y
                for _ in range(cnt):
                    self.run(body)
            else:
                self.operator(d, Y)

    def const(self, d):
        raws = self.port.const(self.info('%06d' % d, 'const', d, 0))
        self.emit('%06d' % d, 'const', d, 0, raws, list(raws))

    def operator(self, d, Y):
        op = d // 1000
        if self.qa == 2:
            self.qa = 0           # the run of quality values ends at the first descriptor that is not a class-33 element (A.3)
        if op == 201:
            self.woff = Y - 128 if Y else 0
        elif op == 202:
            self.soff = Y - 128 if Y else 0
        elif op == 203:
            if Y == 255:
                self.newref_bits = 0
            else:
                self.newref_bits = Y
                if Y == 0:
                    self.newref = {}
        elif op == 204:
            if Y == 0:
                if not self.assoc:
                    raise RefError('204000 without a matching 204YYY')
                self.assoc.pop()
            else:
                if self.assoc:
                    self.ambiguous.append('nested 204')
                self.assoc.append(Y)
        elif op == 205:
            raws = self.port.string(Y, self.info('%06d' % d, 'str', d, 8 * Y))
            self.emit('%06d' % d, 'text', d, 8 * Y, raws, list(raws))
        elif op == 206:
            self.skip_bits = Y
        elif op == 207:
            self.y207 = Y
        elif op == 208:
            self.nbytes = Y
        elif op == 221:
            self.dnp = Y
        elif op in (222, 223, 224, 225, 232):
            if Y == 0:
                self.bm_state = 1
                self.boundary = len(self.items)
                self.const(d)
                if op == 222:
                    self.qa = 1
            elif Y == 255 and op != 222:
                if self.assoc:
                    self.ambiguous.append('204 in force at a marker operator')
                idx = self.next_selected()
                self.links[len(self.items)] = idx
                bd = self.items[idx].desc
                if op == 225:
                    w0 = self.B[bd][4]
                    self.element(bd, marker='D', extra_width=1, ref_override=-(1 << w0))
                else:
                    self.element(bd, marker=MARKER_PREFIX[op])
            else:
                raise RefError('operator %06d' % d)
        elif op == 235:
            self.window = None
            self.kept_bitmap = None
            self.selected = []
            self.sel_iter = iter(())
        elif op == 236:
            self.const(d)
        elif op == 237:
            if Y == 0:
                if self.kept_bitmap is None:
                    self.ambiguous.append('237000 without a kept bitmap')
                self.sel_iter = iter(self.selected)
            elif self.bm_reuse:
                self.kept_bitmap = None
            self.const(d)
        else:
            raise RefError('operator %06d is outside the model' % d)


def _role(d):
    if d in (31000, 31001, 31002):
        return 'factor'
    if d == 31031:
        return 'bit'
    return None


class Subset(object):
    __slots__ = ('labels', 'values', 'raws', 'links', 'meta')

    def __init__(self, labels, values, raws, links, meta):
        self.labels, self.values, self.raws, self.links, self.meta = labels, values, raws, links, meta


def _collect(interp, s):
    its = interp.items
    return Subset([i.label for i in its], [i.vals[s] for i in its], [i.raws[s] for i in its],
                  dict(interp.links), [(i.kind, i.desc, i.width) for i in its])


def decode(B, D, descs, nsub, compressed, data):
    """-> (list of Subset, notes, bits consumed)"""
    port = DecPort(data, nsub, compressed)
    out, notes = [], []
    if compressed:
        if nsub:
            it = Interp(B, D, port)
            it.run(descs)
            notes += it.ambiguous
            out = [_collect(it, s) for s in range(nsub)]
    else:
        for s in range(nsub):
            it = Interp(B, D, port, s)
            it.run(descs)
            notes += it.ambiguous
            out.append(_collect(it, 0))
    decode.last_port = port
    return out, notes, port.src.pos


def encode(B, D, descs, nsub, compressed, chooser):
    """-> (BitBuf of the data bits (unpadded), list of Subset, notes, nbincs)"""
    port = EncPort(chooser, nsub, compressed)
    out, notes = [], []
    if compressed:
        if nsub:
            it = Interp(B, D, port)
            it.run(descs)
            notes += it.ambiguous
            out = [_collect(it, s) for s in range(nsub)]
    else:
        for s in range(nsub):
            it = Interp(B, D, port, s)
            it.run(descs)
            notes += it.ambiguous
            out.append(_collect(it, 0))
    encode.last_port = port
    return port.buf, out, notes, port.nbincs


def expand(B, D, descs):
    """Fully expanded flat descriptor list of a template without delayed replication data (for C14):
    sequences replaced by members recursively, replication descriptors kept, bodies not repeated."""
    out = []
    work = deque(descs)
    while work:
        d = work.popleft()
        if d // 100000 == 3:
            if d not in D:
                raise UnknownDescriptor('%06d' % d)
            work.extendleft(reversed(D[d]))
        else:
            out.append(d)
    return out
