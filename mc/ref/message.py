"""
R.message -- sections 0-5 of BUFR editions 2, 3, 4, hard-coded from FM-94
(not from pybufrkit's definitions/*.json).  Builder, parser and the flat-JSON
input form that pybufrkit's encoder consumes.

A layout row is (name, bits, kind) with kind in {'u' unsigned, 'b' bool, 'z' zero bits}.
The *names* are pybufrkit's parameter names (needed to build encoder input and
for metadata queries); positions and widths are FM-94's.
"""
from mc.ref.bits import BitBuf

SEC1 = {
    2: [('section_length', 24, 'u'), ('master_table_number', 8, 'u'), ('originating_centre', 16, 'u'),
        ('update_sequence_number', 8, 'u'), ('is_section2_presents', 1, 'b'), ('flag_bits', 7, 'z'),
        ('data_category', 8, 'u'), ('data_local_subcategory', 8, 'u'), ('master_table_version', 8, 'u'),
        ('local_table_version', 8, 'u'), ('year', 8, 'u'), ('month', 8, 'u'), ('day', 8, 'u'),
        ('hour', 8, 'u'), ('minute', 8, 'u'), ('second', 8, 'u')],
    3: [('section_length', 24, 'u'), ('master_table_number', 8, 'u'), ('originating_subcentre', 8, 'u'),
        ('originating_centre', 8, 'u'), ('update_sequence_number', 8, 'u'), ('is_section2_presents', 1, 'b'),
        ('flag_bits', 7, 'z'), ('data_category', 8, 'u'), ('data_local_subcategory', 8, 'u'),
        ('master_table_version', 8, 'u'), ('local_table_version', 8, 'u'), ('year', 8, 'u'), ('month', 8, 'u'),
        ('day', 8, 'u'), ('hour', 8, 'u'), ('minute', 8, 'u'), ('second', 8, 'u')],
    4: [('section_length', 24, 'u'), ('master_table_number', 8, 'u'), ('originating_centre', 16, 'u'),
        ('originating_subcentre', 16, 'u'), ('update_sequence_number', 8, 'u'), ('is_section2_presents', 1, 'b'),
        ('flag_bits', 7, 'z'), ('data_category', 8, 'u'), ('data_i18n_subcategory', 8, 'u'),
        ('data_local_subcategory', 8, 'u'), ('master_table_version', 8, 'u'), ('local_table_version', 8, 'u'),
        ('year', 16, 'u'), ('month', 8, 'u'), ('day', 8, 'u'), ('hour', 8, 'u'), ('minute', 8, 'u'),
        ('second', 8, 'u')],
}

DEFAULT_META = {
    'master_table_number': 0, 'originating_centre': 1, 'originating_subcentre': 0, 'update_sequence_number': 0,
    'data_category': 2, 'data_i18n_subcategory': 4, 'data_local_subcategory': 0, 'master_table_version': 33,
    'local_table_version': 0, 'year': 17, 'month': 3, 'day': 5, 'hour': 7, 'minute': 9, 'second': 0,
}


class Spec(object):
    """Everything that determines a message except the data bits."""

    def __init__(self, edition=4, meta=None, sec2=None, descs=(), nsub=1, compressed=False, observed=True):
        self.edition = edition
        self.meta = dict(DEFAULT_META)
        if meta:
            self.meta.update(meta)
        if edition < 4 and 'year' not in (meta or {}):
            self.meta['year'] = 17
        self.sec2 = sec2                 # None or bytes of local octets
        self.descs = list(descs)
        self.nsub = nsub
        self.compressed = compressed
        self.observed = observed


def _pad(nbytes, edition):
    """octets of padding a section of nbytes content gets (even octet count for editions <= 3)"""
    return 1 if (edition <= 3 and nbytes % 2) else 0


def build(spec, data, surplus=None, declared=None, data_is_bits=True):
    """
    spec: Spec; data: BitBuf (unpadded data bits) or bytes.
    surplus: {section index: extra zero octets appended inside the section (declared length grows)}
    declared: {section index or 'total': declared length to write instead of the real one}
    -> (bytes, info) where info has the real extents of the sections
    """
    surplus = surplus or {}
    declared = declared or {}
    ed = spec.edition
    secs = {}
    # section 1
    b = BitBuf()
    for name, bits, kind in SEC1[ed]:
        if name == 'section_length':
            b.put(0, 24)
        elif kind == 'b':
            b.put(1 if spec.sec2 is not None else 0, 1)
        elif kind == 'z':
            b.put(0, bits)
        else:
            b.put(spec.meta[name], bits)
    secs[1] = b.to_bytes()
    if spec.sec2 is not None:
        secs[2] = b'\0\0\0\0' + bytes(spec.sec2)
    # section 3
    b = BitBuf()
    b.put(0, 24)
    b.put(0, 8)
    b.put(spec.nsub, 16)
    b.put(1 if spec.observed else 0, 1)
    b.put(1 if spec.compressed else 0, 1)
    b.put(0, 6)
    for d in spec.descs:
        b.put(d // 100000, 2)
        b.put((d // 1000) % 100, 6)
        b.put(d % 1000, 8)
    secs[3] = b.to_bytes()
    # section 4
    if isinstance(data, BitBuf):
        db = BitBuf()
        db.extend(data)
        db.pad_to_octet()
        data = db.to_bytes()
    secs[4] = b'\0\0\0\0' + data
    out = []
    info = {}
    for k in sorted(secs):
        body = secs[k] + b'\0' * surplus.get(k, 0)
        body += b'\0' * _pad(len(body), ed)
        n = declared.get(k, len(body))
        body = n.to_bytes(3, 'big') + body[3:]
        info[k] = len(body)
        out.append(body)
    rest = b''.join(out) + b'7777'
    total = 8 + len(rest)
    info['total'] = total
    msg = b'BUFR' + declared.get('total', total).to_bytes(3, 'big') + bytes([ed]) + rest
    return msg, info


class Parsed(object):
    pass


def parse(b):
    """Independent reader of the framing.  Raises ValueError on malformed input."""
    if b[:4] != b'BUFR':
        raise ValueError('no start signature')
    p = Parsed()
    p.total = int.from_bytes(b[4:7], 'big')
    p.edition = ed = b[7]
    if ed not in SEC1:
        raise ValueError('edition %d' % ed)
    off = 8
    p.sections = {0: (0, 8)}
    l1 = int.from_bytes(b[off:off + 3], 'big')
    p.meta = {}
    pos = off * 8
    v = int.from_bytes(b[off:off + l1], 'big')
    nbits = l1 * 8
    used = 0
    for name, bits, kind in SEC1[ed]:
        val = (v >> (nbits - used - bits)) & ((1 << bits) - 1)
        used += bits
        p.meta[name] = bool(val) if kind == 'b' else val
    p.sections[1] = (off, l1)
    off += l1
    p.sec2 = None
    if p.meta['is_section2_presents']:
        l2 = int.from_bytes(b[off:off + 3], 'big')
        p.sec2 = b[off + 4:off + l2]
        p.sections[2] = (off, l2)
        off += l2
    l3 = int.from_bytes(b[off:off + 3], 'big')
    p.nsub = int.from_bytes(b[off + 4:off + 6], 'big')
    fl = b[off + 6]
    p.observed, p.compressed = bool(fl & 0x80), bool(fl & 0x40)
    p.descs = []
    for i in range((l3 - 7) // 2):
        w = int.from_bytes(b[off + 7 + 2 * i: off + 9 + 2 * i], 'big')
        p.descs.append((w >> 14) * 100000 + ((w >> 8) & 63) * 1000 + (w & 255))
    p.sections[3] = (off, l3)
    off += l3
    l4 = int.from_bytes(b[off:off + 3], 'big')
    p.data = b[off + 4: off + l4]
    p.sections[4] = (off, l4)
    off += l4
    p.sections[5] = (off, 4)
    p.stop = b[off:off + 4]
    p.end = off + 4
    return p


def flat_json(spec, values_all_subsets, lengths=None):
    """The flat JSON form pybufrkit's encoder consumes.  lengths: {section index|'total': declared}."""
    lengths = lengths or {}
    ed = spec.edition
    out = [[b'BUFR', lengths.get('total', 0), ed]]
    s1 = []
    for name, bits, kind in SEC1[ed]:
        if name == 'section_length':
            s1.append(lengths.get(1, 0))
        elif kind == 'b':
            s1.append(spec.sec2 is not None)
        elif kind == 'z':
            s1.append('0' * bits)
        else:
            s1.append(spec.meta[name])
    out.append(s1)
    if spec.sec2 is not None:
        bits = ''.join(format(x, '08b') for x in spec.sec2)
        out.append([lengths.get(2, 0), '00000000', bits])
    out.append([lengths.get(3, 0), '00000000', spec.nsub, bool(spec.observed), bool(spec.compressed), '000000',
                list(spec.descs)])
    out.append([lengths.get(4, 0), '00000000', [list(v) for v in values_all_subsets]])
    out.append([b'7777'])
    return out
