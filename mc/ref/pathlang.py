"""
R.pathlang -- the documented grammar of data-query path expressions
(docs/internals.rst, "Query the Template Data"):

    query_expr  = [subset_spec] path_spec+
    subset_spec = '@' slice
    path_spec   = separator descriptor_id [slice]
    separator   = '/' | '.' | '>'        (omissible only at the very start of the string)
    slice       = Python list slicing: [i] | [a:b] | [a:b:c], parts optional except in [i]
    whitespace is ignored

Recogniser (regular expression over the whitespace-free string), AST builder
(recursive descent over tokens) and an explicit DFA used as the abstract state
space of the E2 exploration.  Nothing here imports pybufrkit.
"""
import re
import string

WS = set(string.whitespace)
INT = r'-?[0-9]+'
SLICE = r'\[(?:%s|(?:%s)?:(?:%s)?(?::(?:%s)?)?)\]' % (INT, INT, INT, INT)
IDR = r'[0-9A-Za-z]+'
COMP = r'[/.>]%s(?:%s)?' % (IDR, SLICE)
GRAMMAR = re.compile(r'(?:@%s(?=[/.>]))?(?:[/.>])?%s(?:%s)?(?:%s)*' % (SLICE, IDR, SLICE, COMP))
# a path whose first separator is '.' : documented EBNF allows it, the repository's own tests pin
# its rejection -> neither outcome is judged
DOTFIRST = re.compile(r'(?:@%s)?\.' % SLICE)
TOKEN = re.compile(r'(@)|([/.>])|(%s)|(%s)' % (SLICE, IDR))


def strip_ws(s):
    return ''.join(c for c in s if c not in WS)


def accepts(s):
    return GRAMMAR.fullmatch(strip_ws(s)) is not None


def dontcare(s):
    return DOTFIRST.match(strip_ws(s)) is not None


def _slice_obj(text):
    """text like '[1]' '[-2]' '[a:b:c]' -> ('i', k) or ('s', start, stop, step)"""
    inner = text[1:-1]
    if ':' not in inner:
        return ('i', int(inner))
    parts = [(int(p) if p != '' else None) for p in inner.split(':')]
    while len(parts) < 3:
        parts.append(None)
    return ('s',) + tuple(parts)


ALL = ('s', None, None, None)


def parse(s):
    """-> (subset_slice, [(sep, id, slice)]) for a string of the language, else None"""
    t = strip_ws(s)
    if GRAMMAR.fullmatch(t) is None:
        return None
    toks = [m.group(0) for m in TOKEN.finditer(t)]
    i = 0
    subset = ALL
    if toks[0] == '@':
        subset = _slice_obj(toks[1])
        i = 2
    comps = []
    first = True
    while i < len(toks):
        if toks[i] in '/.>':
            sep = toks[i]
            i += 1
        else:
            assert first
            sep = '>'
        first = False
        ident = toks[i]
        i += 1
        slc = ALL
        if i < len(toks) and toks[i].startswith('['):
            slc = _slice_obj(toks[i])
            i += 1
        comps.append((sep, ident, slc))
    return subset, comps


def apply_slice(slc, seq):
    """The selection a slice designates on a list (documented semantics)."""
    if slc[0] == 'i':
        k = slc[1]
        if k >= 0:
            return [seq[k]] if k < len(seq) else []
        return seq[k:][:1] if -k <= len(seq) else []     # [-k]: that single element, Python style
    return seq[slice(slc[1], slc[2], slc[3])]


# ----------------------------------------------------------------------------------------
# explicit DFA (abstract state space for E2).  States are tuples.
START, AT, ATCLOSE, SEP, ID, CCLOSE, DEAD, DC = ('S',), ('@',), ('@]',), ('SEP',), ('ID',), ('C]',), ('DEAD',), ('DC',)


def cclass(ch):
    if ch in WS:
        return 'w'
    if ch.isdigit() and ch.isascii():
        return 'd'
    if ch.isalpha() and ch.isascii():
        return 'a'
    if ch in '@[]:/.>-':
        return ch
    return '?'


def step(state, ch):
    c = cclass(ch)
    if c == 'w' or state in (DEAD, DC):
        return state
    if state == START:
        if c == '@':
            return AT
        if c in '/>':
            return SEP
        if c == '.':
            return DC
        if c in 'da':
            return ID
        return DEAD
    if state == AT:
        return ('SL', '@', 0, 'e') if c == '[' else DEAD
    if state[0] == 'SL':
        _, ctx, p, tok = state
        if c == 'd':
            return ('SL', ctx, p, 'd')
        if c == '-':
            return ('SL', ctx, p, '-') if tok == 'e' else DEAD
        if c == ':':
            if tok == '-' or p >= 2:
                return DEAD
            return ('SL', ctx, p + 1, 'e')
        if c == ']':
            if tok == '-' or (p == 0 and tok == 'e'):
                return DEAD
            return ATCLOSE if ctx == '@' else CCLOSE
        return DEAD
    if state == ATCLOSE:
        if c in '/>':
            return SEP
        if c == '.':
            return DC
        return DEAD
    if state == SEP:
        return ID if c in 'da' else DEAD
    if state == ID:
        if c in 'da':
            return ID
        if c == '[':
            return ('SL', 'c', 0, 'e')
        if c in '/.>':
            return SEP
        return DEAD
    if state == CCLOSE:
        return SEP if c in '/.>' else DEAD
    raise ValueError(state)


def dfa_state(s):
    st = START
    for ch in s:
        st = step(st, ch)
    return st


def dfa_accepts(s):
    return dfa_state(s) in (ID, CCLOSE)
