"""Comparison rule for decoded values (DESIGN 2.3)."""
import math


def same_value(impl, ref, ulps=4):
    if impl is None or ref is None:
        return impl is ref
    if isinstance(impl, bool) or isinstance(ref, bool):
        return impl is ref
    if isinstance(impl, (bytes, str)) or isinstance(ref, (bytes, str)):
        return type(impl) is type(ref) and impl == ref
    if isinstance(impl, int) and isinstance(ref, int):
        return impl == ref
    if not isinstance(impl, (int, float)) or not isinstance(ref, (int, float)):
        return False
    if impl == ref:
        return True
    return abs(impl - ref) <= ulps * math.ulp(max(abs(impl), abs(ref)))


def first_diff(impl_list, ref_list):
    """index of the first differing value or None"""
    if len(impl_list) != len(ref_list):
        return min(len(impl_list), len(ref_list))
    for i, (a, b) in enumerate(zip(impl_list, ref_list)):
        if not same_value(a, b):
            return i
    return None
