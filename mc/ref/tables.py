"""
R.tables -- Table B / Table D of any bundled version read straight from the JSON
files into plain dicts (no descriptor classes, no cache shared with pybufrkit).

B[id] = (name, unit, scale, reference, width)      D[id] = [member ids]
"""
from mc import REPO
import json
import os

TABLES_ROOT = os.path.join(REPO, 'pybufrkit/tables')
_cache = {}


def kind_of(unit):
    """FM-94: CCITT IA5 = characters; CODE TABLE / FLAG TABLE (any letter case) = code/flag; else numeric.
    Qualified code tables ('Common CODE TABLE C-1', 'CODE TABLE defined by ...') are reported as 'qcode'
    (kept out of operator scopes by the generators, see DESIGN 2.4)."""
    u = unit.strip().upper()
    if u == 'CCITT IA5':
        return 'str'
    if u in ('CODE TABLE', 'FLAG TABLE'):
        return 'code'
    if 'CODE TABLE' in u or 'FLAG TABLE' in u:
        return 'qcode'
    return 'num'


def _load_dir(path):
    with open(os.path.join(path, 'TableB.json')) as f:
        b = {int(k): (v[0], v[1], v[2], v[3], v[4]) for k, v in json.load(f).items()}
    with open(os.path.join(path, 'TableD.json')) as f:
        d = {int(k): [int(x) for x in v[1]] for k, v in json.load(f).items()}
    return b, d


def load(master_version=33, local=None, master_table=0, root=TABLES_ROOT):
    """local = (centre, subcentre, version) or None -> (B, D); local entries override master ones"""
    key = (root, master_table, master_version, local)
    if key not in _cache:
        B, D = {}, {}
        b, d = _load_dir(os.path.join(root, str(master_table), '0_0', str(master_version)))
        B.update(b)
        D.update(d)
        if local is not None:
            b, d = _load_dir(os.path.join(root, str(master_table), '%d_%d' % (local[0], local[1]), str(local[2])))
            B.update(b)
            D.update(d)
        _cache[key] = (B, D)
    return _cache[key]


def load_sn(wmo_sn, local_sn, root=TABLES_ROOT):
    """tables named by pybufrkit-style serial tuples, e.g. ('0','0_0','13'), ('0','98_0','1')"""
    key = ('sn', root, tuple(wmo_sn), tuple(local_sn) if local_sn else None)
    if key not in _cache:
        B, D = {}, {}
        for sn in (wmo_sn, local_sn):
            if sn:
                b, d = _load_dir(os.path.join(root, *sn))
                B.update(b)
                D.update(d)
        _cache[key] = (B, D)
    return _cache[key]


def master_versions(root=TABLES_ROOT, master_table=0):
    p = os.path.join(root, str(master_table), '0_0')
    return sorted(int(x) for x in os.listdir(p) if x.isdigit())


def local_dirs(root=TABLES_ROOT, master_table=0):
    out = []
    base = os.path.join(root, str(master_table))
    for c in sorted(os.listdir(base)):
        if c == '0_0' or '_' not in c:
            continue
        for v in sorted(os.listdir(os.path.join(base, c))):
            if v.isdigit():
                a, b = c.split('_')
                out.append((int(a), int(b), int(v)))
    return out
