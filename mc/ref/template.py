"""
R.template -- FM-94 ownership of a flat descriptor list (regulation 94.5.4: a replication descriptor
1XXYYY applies to the X descriptors that follow it, after the class-31 factor when YYY = 0; a sequence
descriptor counts as one and stands for its Table D members).  Index arithmetic with explicit scope
ends; no iterators.  Nothing here imports pybufrkit.

tree(ids, D) -> list of nodes:
   ('E', id)  element        ('O', id)  operator
   ('S', id, [member nodes])  sequence (members from Table D, recursively)
   ('R', id, factor id or None, [body nodes])
"""


class IllFormed(Exception):
    pass


def tree(ids, D=None, depth=0):
    ids = list(ids)
    return _parse(ids, 0, len(ids), D, depth)


def _parse(ids, i, end, D, depth):
    if depth > 40:
        raise IllFormed('nesting too deep')
    out = []
    while i < end:
        d = ids[i]
        F, X, Y = d // 100000, (d // 1000) % 100, d % 1000
        if F == 0:
            out.append(('E', d))
            i += 1
        elif F == 2:
            out.append(('O', d))
            i += 1
        elif F == 3:
            if D is None:
                out.append(('S', d, None))
            elif d not in D:
                out.append(('S', d, 'undefined'))
            else:
                out.append(('S', d, tree(D[d], D, depth + 1)))
            i += 1
        else:
            j = i + 1
            factor = None
            if Y == 0:
                if j >= end:
                    raise IllFormed('delayed replication without a factor')
                factor = ids[j]
                if factor // 100000 != 0:
                    raise IllFormed('replication factor is not an element descriptor')
                j += 1
            if X == 0:
                raise IllFormed('replication of zero descriptors')
            if j + X > end:
                raise IllFormed('replication %06d runs past the end of its scope' % d)
            out.append(('R', d, factor, _parse(ids, j, j + X, D, depth + 1)))
            i = j + X
    return out


def nesting(nodes):
    m = 0
    for n in nodes:
        if n[0] == 'R':
            m = max(m, 1 + nesting(n[3]))
    return m


def flat_ids(nodes):
    """flattening of the tree back to the original list"""
    out = []
    for n in nodes:
        out.append(n[1])
        if n[0] == 'R':
            if n[2] is not None:
                out.append(n[2])
            out.extend(flat_ids(n[3]))
    return out


def expand(ids, D):
    """fully expanded flat id list: sequences replaced by their members recursively, replication descriptors and
    factors kept, bodies not repeated"""
    out = []
    for d in ids:
        if d // 100000 == 3:
            if d not in D:
                raise KeyError(d)
            out.extend(expand(D[d], D))
        else:
            out.append(d)
    return out
