"""
C14 -- templates are built from descriptor lists exactly as FM-94 prescribes.

Parts (complete enumerations):
  tableD   every Table D entry of every bundled master-table version (and of every bundled local table on
           top of master version 13): flat_member_ids == direct recursive expansion of the JSON file; tree
           shape == FM-94 ownership (mc.ref.template) where the entry is well formed; every reached element
           keeps its (name, unit, scale, reference, width) of the JSON row; every Table B entry too.
  lists    ALL descriptor lists of length <= 6 (thorough 8) over a 9-symbol alphabet {element, sequence,
           operator, 1 01 002, 1 02 002, 1 03 001, 1 01 000, 1 02 000, 031001} that are well formed by FM-94
           (replication nesting <= 4): the built tree == mc.ref.template ownership and flattening it returns the
           original list; plus the X sweep 1..63 for fixed and delayed replication and nesting-depth chains.
  unknown  an undefined element / undefined sequence substituted at every reached position of
           every well-formed list of length <= 4 (thorough 5): decoding must raise UnknownDescriptor.
  select   table selection: master version 0..45 x local version {0,1,2,3,4,101} x centre {0,7,98,99} x
           sub-centre {0,3} x master table {0,1,10}: the key of the table group == the documented fall-back
           (given version if bundled else 33; centre_subcentre, else centre_0, else no local tables).
"""
import contextlib
import io
import itertools
import os

from mc.engine import implstate
from mc.engine.harness import Partial, Report, merge_all
from mc.engine.pool import run_shards, split
from mc.gen import scenario as S
from mc.ref import codec, message, tables
from mc.ref import template as T

PID = 'C14'
ROOT = tables.TABLES_ROOT


def impl_tree(members):
    from pybufrkit.descriptors import (DelayedReplicationDescriptor, ElementDescriptor, FixedReplicationDescriptor,
                                       OperatorDescriptor, SequenceDescriptor, UndefinedElementDescriptor,
                                       UndefinedSequenceDescriptor)
    out = []
    for m in members:
        if isinstance(m, DelayedReplicationDescriptor):
            out.append(('R', m.id, m.factor.id, impl_tree(m.members)))
        elif isinstance(m, FixedReplicationDescriptor):
            out.append(('R', m.id, None, impl_tree(m.members)))
        elif isinstance(m, SequenceDescriptor):
            out.append(('S', m.id, impl_tree(m.members)))
        elif isinstance(m, UndefinedSequenceDescriptor):
            out.append(('S', m.id, 'undefined'))
        elif isinstance(m, OperatorDescriptor):
            out.append(('O', m.id))
        elif isinstance(m, (ElementDescriptor, UndefinedElementDescriptor)):
            out.append(('E', m.id))
        else:
            out.append(('?', m.id, type(m).__name__))
    return out


def leaves(members, out):
    from pybufrkit.descriptors import DelayedReplicationDescriptor, ElementDescriptor
    for m in members:
        if isinstance(m, ElementDescriptor):
            out.append(m)
        if isinstance(m, DelayedReplicationDescriptor) and isinstance(m.factor, ElementDescriptor):
            out.append(m.factor)
        if getattr(m, 'members', None):
            leaves(m.members, out)
    return out


def table_group(master, local=None, normalize=0):
    from pybufrkit.tables import TableGroupCacheManager
    kw = dict(tables_root_dir=None, master_table_number=0, master_table_version=master, normalize=normalize,
              originating_centre=0, originating_subcentre=0, local_table_version=0)
    if local:
        kw.update(originating_centre=local[0], originating_subcentre=local[1], local_table_version=local[2])
    return TableGroupCacheManager.get_table_group(**kw)


def run_tabled(versions):
    from pybufrkit.descriptors import flat_member_ids
    p = Partial()
    for master, local in versions:
        B, D = tables.load(master, local)
        vname = '%d%s' % (master, '+%d_%d/%d' % local if local else '')
        try:
            tg = table_group(master, local)
        except BaseException as e:
            p.n['exec'] += 1
            p.violation('table-group-load-raises:' + type(e).__name__, {'version': vname, 'id': 0},
                        'loading the tables of version %s raised %r' % (vname, e))
            continue
        for d in sorted(B):
            p.n['exec'] += 1
            e = tg.B.lookup(d)
            row = (e.name, e.unit, e.scale, e.refval, e.nbits)
            if row != B[d]:
                p.violation('tableB-row', {'version': vname, 'id': d}, 'element %06d is %r, file says %r' % (d, row, B[d]))
        for d in sorted(D):
            p.n['exec'] += 1
            case = {'version': vname, 'id': d}
            try:
                seq = tg.lookup(d)
                flat_member_ids(seq)
            except BaseException as e:
                p.violation('lookup-raises:' + type(e).__name__, case, repr(e))
                continue
            try:
                want = T.expand([d], D)
            except KeyError as e:
                p.n['refers_to_undefined_sequence'] += 1
                continue
            got = flat_member_ids(seq)
            if got != want:
                k = next((i for i, (a, b) in enumerate(zip(got, want)) if a != b), min(len(got), len(want)))
                p.violation('flat-expansion', case, 'sequence %06d of version %s expands to %d ids, the file to %d; first '
                            'difference at %d: %r vs %r' % (d, vname, len(got), len(want), k, got[k:k + 3], want[k:k + 3]))
                continue
            try:
                shape = T.tree(D[d], D)
                wf = True
            except T.IllFormed:
                wf = False
                p.n['illformed_entries'] += 1
            p.outcome((len(want) > 20, wf, T.nesting(shape) if wf else -1))
            if wf and impl_tree(seq.members) != shape:
                p.violation('tree-shape', case, 'sequence %06d of version %s: tree %r, FM-94 ownership %r'
                            % (d, vname, impl_tree(seq.members), shape))
                continue
            for e in leaves(seq.members, []):
                if e.id in B and (e.name, e.unit, e.scale, e.refval, e.nbits) != B[e.id]:
                    p.violation('leaf-attributes', case, 'element %06d reached through %06d is %r, file says %r'
                                % (e.id, d, (e.name, e.unit, e.scale, e.refval, e.nbits), B[e.id]))
                    break
        p.sample({'version': vname, 'tableB': len(B), 'tableD': len(D)})
    return p


# ------------------------------------------------------------------------------------------
E_, Q_, O_, Z_ = 1001, 301001, 201130, 31001
SYMS = [E_, Q_, O_, 101002, 102002, 103001, 101000, 102000, Z_]


def wellformed_lists(maxlen, first=None):
    """all lists over SYMS of length 1..maxlen (starting with `first` if given) that FM-94 accepts, nesting <= 4"""
    B, D = S.tables_for(33)
    for n in range(1, maxlen + 1):
        rest = n - (1 if first is not None else 0)
        if rest < 0:
            continue
        for t in itertools.product(SYMS, repeat=rest):
            ids = ([first] if first is not None else []) + list(t)
            try:
                shape = T.tree(ids, D)
            except T.IllFormed:
                continue
            if any(n_[0] == 'R' and n_[2] is not None and n_[2] != Z_ for n_ in _walk(shape)):
                continue       # a delayed replication's factor must be a class-31 element
            if T.nesting(shape) > 4:
                continue
            yield ids, shape


def _walk(nodes):
    for n in nodes:
        yield n
        if n[0] == 'R':
            for x in _walk(n[3]):
                yield x


def run_lists(args):
    maxlen, firsts = args
    p = Partial()
    try:
        tg = table_group(33)
    except BaseException as e:
        p.n['exec'] += 1
        p.violation('table-group-load-raises:' + type(e).__name__, {'ids': [firsts[0]]}, repr(e))
        return p
    for first in firsts:
        for ids, shape in wellformed_lists(maxlen, first):
            p.n['exec'] += 1
            try:
                tpl = tg.template_from_ids(*ids)
            except BaseException as e:
                p.violation('template-raises:' + type(e).__name__, {'ids': ids}, repr(e))
                continue
            got = impl_tree(tpl.members)
            p.outcome((len(ids), T.nesting(shape), sum(1 for n in _walk(shape) if n[0] == 'R')))
            if got != shape:
                p.violation('tree-shape', {'ids': ids}, 'list %r: tree %r, FM-94 ownership %r' % (ids, got, shape))
                continue
            back = tpl.original_descriptor_ids
            if list(back) != ids:
                p.violation('flatten-back', {'ids': ids}, 'list %r flattens back to %r' % (ids, back))
            if p.n['exec'] % 20000 == 1:
                p.sample({'ids': ids})
    return p


def sweep_lists():
    out = []
    for x in range(1, 64):
        out.append([100000 + x * 1000 + 2] + [E_] * x)
        out.append([100000 + x * 1000, Z_] + [E_] * x)
        out.append([100000 + x * 1000 + 1] + [Q_] * x + [E_])
        if x >= 3:
            out.append([100000 + x * 1000 + 3, E_, 100000 + (x - 2) * 1000 + 2] + [E_] * (x - 2))
    # nesting chains to depth 4, fixed and delayed mixed
    for kinds in itertools.product((0, 1), repeat=4):
        ids, need = [], 1
        body = [E_]
        for k in reversed(kinds):
            x = len(body)
            body = ([100000 + x * 1000, Z_] if k else [100000 + x * 1000 + 2]) + body
        out.append(body + [E_])
    return out


def run_sweep(lists):
    p = Partial()
    B, D = S.tables_for(33)
    for ids in lists:
        p.n['exec'] += 1
        shape = T.tree(ids, D)
        try:
            tg = table_group(33)
            tpl = tg.template_from_ids(*ids)
        except BaseException as e:
            p.violation('template-raises:%s|sweep' % type(e).__name__, {'ids': ids}, repr(e))
            continue
        p.outcome((len(ids) > 10, T.nesting(shape)))
        if impl_tree(tpl.members) != shape:
            p.violation('tree-shape|sweep', {'ids': ids}, 'list %r: wrong ownership' % (ids[:4],))
        elif list(tpl.original_descriptor_ids) != ids:
            p.violation('flatten-back|sweep', {'ids': ids}, 'list %r does not flatten back' % (ids[:4],))
    return p


# ------------------------------------------------------------------------------------------
U_ELEM, U_SEQ = 63254, 363254


def run_unknown(args):
    maxlen, firsts = args
    from pybufrkit.decoder import Decoder
    from pybufrkit.errors import UnknownDescriptor
    p = Partial()
    dec = Decoder()
    B, D = S.tables_for(33)

    def chooser(info):
        if info.get('role') == 'factor':
            return 1
        return 1 if info['width'] > 1 else 0
    for first in firsts:
        for ids, shape in wellformed_lists(maxlen, first):
            try:
                buf, subs, notes, nb = codec.encode(B, D, ids, 1, False, chooser)
            except (codec.RefError, ValueError):
                continue
            if notes:
                continue
            factor_pos = set()
            i = 0
            for k, d in enumerate(ids):
                if d // 100000 == 1 and d % 1000 == 0:
                    factor_pos.add(k + 1)
            for k in range(len(ids)):
                for u in (U_ELEM, U_SEQ):
                    if k in factor_pos and u == U_SEQ:
                        continue      # a sequence descriptor in the place of a factor is a different list structure
                    p.n['exec'] += 1
                    ids2 = ids[:k] + [u] + ids[k + 1:]
                    b, _ = message.build(message.Spec(descs=ids2, nsub=1), buf)
                    with contextlib.redirect_stderr(io.StringIO()):
                        try:
                            dec.process(b, wire_template_data=False)
                            out = 'ok'
                        except UnknownDescriptor:
                            out = 'UnknownDescriptor'
                        except Exception as e:
                            out = type(e).__name__
                    p.outcome((out, ids[k] // 100000, u // 100000))
                    if out != 'UnknownDescriptor':
                        p.violation('unknown-%s|%s' % ('accepted' if out == 'ok' else 'error-type:' + out,
                                                        'seq' if u == U_SEQ else 'elem'),
                                    {'ids': ids, 'position': k, 'undefined': u, 'bytes': b},
                                    'list %r with %06d at position %d: %s' % (ids, u, k, out))
    return p


# ------------------------------------------------------------------------------------------
# an undefined descriptor inside the scope of a data-description operator: the operator must not turn "unknown" into "skipped"
SCOPES = [
    ('221-span-1', [1001, 221001, 'X', 12001]),
    ('221-span-last', [221002, 12001, 'X', 1001]),
    ('221-span-mid', [221003, 1001, 'X', 12001]),
    ('221-in-repl', [102002, 221001, 'X']),
    ('221-over-repl', [221003, 101002, 'X', 1001]),
    ('201', [201130, 'X', 201000]),
    ('202', [202129, 'X', 202000]),
    ('207', [207001, 'X', 207000]),
    ('208', [208002, 'X', 208000]),
    ('204', [204002, 31021, 'X', 204000]),
    ('203-define', [203012, 'X', 203255]),
    ('203-in-force', [203012, 5002, 203255, 'X', 203000]),
    ('after-222', [1001, 222000, 101001, 31031, 'X']),
    ('bitmap-target', ['X', 223000, 101001, 31031, 223255]),
    ('206-skip', [206008, 'X', 1001]),          # the one legitimate way to pass over a descriptor that is in no table
]
UNKNOWN_IDS = [63254, 12250, 2250, 31250, 33250, 363254, 309250]


def run_unknown_scopes(args):
    from pybufrkit.decoder import Decoder
    from pybufrkit.errors import UnknownDescriptor
    scopes = args
    p = Partial()
    B, D = S.tables_for(33)
    from mc.ref.bits import BitBuf
    for sname, tmpl in scopes:
        for u in UNKNOWN_IDS:
            assert u not in B and u not in D
            if sname == '206-skip' and u // 100000 != 0:
                continue
            ids = [u if x == 'X' else x for x in tmpl]
            for comp, nsub in ((False, 1), (False, 2), (True, 2)):
                for fill in (0x00, 0x55):
                    buf = BitBuf()
                    for _ in range(120):
                        buf.put(fill if not comp else 0, 8)
                    b, _ = message.build(message.Spec(descs=ids, nsub=nsub, compressed=comp), buf)
                    for cc in (None, 2):
                        p.n['exec'] += 1
                        dec = Decoder(compiled_template_cache_max=cc) if cc else Decoder()
                        out = []
                        for rep_ in range(2 if cc else 1):          # second run: template from the compiled cache
                            with contextlib.redirect_stderr(io.StringIO()):
                                try:
                                    m = dec.process(b, wire_template_data=False)
                                    labels = [str(x) for x in m.template_data.value.decoded_descriptors_all_subsets[0]]
                                    out.append('ok' if sname != '206-skip' or ('S%05d' % u) in labels else 'ok-without-skipped-label')
                                except UnknownDescriptor:
                                    out.append('UnknownDescriptor')
                                except Exception as e:
                                    out.append(type(e).__name__)
                        want = 'ok' if sname == '206-skip' else 'UnknownDescriptor'
                        p.outcome((sname, u // 1000, comp, cc, out[-1]))
                        if any(o != want for o in out):
                            p.violation('unknown-in-scope|%s|%s' % (sname.split('-')[0], 'accepted' if 'ok' in out else 'error-type:' + out[0]),
                                        {'scope': sname, 'ids': ids, 'undefined': u, 'compressed': comp, 'nsub': nsub, 'fill': fill,
                                         'compiled_cache': cc},
                                        'list %r (%06d inside %s), %s, %d subsets%s: %r, expected %s'
                                        % (ids, u, sname, 'compressed' if comp else 'uncompressed', nsub,
                                           ', compiled templates' if cc else '', out, want))
    p.n['nodes'], p.n['edges'] = p.n['exec'] + 1, p.n['exec']
    return p


# ------------------------------------------------------------------------------------------
def expected_key(mtn, centre, sub, mver, lver, root=None):
    """the documented fall-back (docstring of normalize_tables_sn), judged against the directory listing"""
    def isdir(*parts):
        return os.path.isdir(os.path.join(root or ROOT, *[str(x) for x in parts]))
    mtn = mtn or 0
    mver = mver or 33
    if not isdir(mtn):
        mtn = 0
    wmo = (str(mtn), '0_0', str(mver)) if isdir(mtn, '0_0', mver) else (str(mtn), '0_0', '33')
    local = None
    if lver:
        for c in ('%d_%d' % (centre or 0, sub or 0), '%d_0' % (centre or 0)):
            if isdir(mtn, c, lver):
                local = (str(mtn), c, str(lver))
                break
    return wmo, local


def run_select(combos):
    from pybufrkit.tables import TableGroupCacheManager
    p = Partial()
    for mtn, centre, sub, mver, lver in combos:
        p.n['exec'] += 1
        case = {'master_table_number': mtn, 'centre': centre, 'subcentre': sub, 'master_version': mver, 'local_version': lver}
        with contextlib.redirect_stderr(io.StringIO()):
            try:
                tg = TableGroupCacheManager.get_table_group(master_table_number=mtn, originating_centre=centre,
                                                            originating_subcentre=sub, master_table_version=mver,
                                                            local_table_version=lver, normalize=1)
            except Exception as e:
                p.violation('select-raises:' + type(e).__name__, case, repr(e))
                continue
        wmo, local = expected_key(mtn, centre, sub, mver, lver)
        got = (tuple(tg.key.wmo_tables_sn), tuple(tg.key.local_tables_sn) if tg.key.local_tables_sn else None)
        p.outcome((wmo[2] == str(mver), local is not None, local is not None and local[1].endswith('_%d' % sub)))
        if got != (wmo, local):
            p.violation('select-key', case, 'selected %r, documented fall-back gives %r' % (got, (wmo, local)))
            continue
        # the selected group really holds that version's definitions (spot value: every version defines 001001 .. and
        # the element count of the file)
        B, D = tables.load_sn(wmo, local)
        if len(tg.B.descriptors) != len(B) or len(tg.D.descriptors) != len(D):
            p.violation('select-content', case, 'table group has %d/%d entries, the files %d/%d'
                        % (len(tg.B.descriptors), len(tg.D.descriptors), len(B), len(D)))
    return p


def _parse_printed_tree(lines):
    """the indented descriptor listing printed by `lookup` / `info -t` -> nodes in the shape of mc.ref.template.tree
    (4 characters of indentation per level; a delayed replication factor is printed as '....' + id on the level of the
    replication descriptor, directly after it)"""
    items = []
    for l in lines:
        body = l.lstrip(' ')
        ind = len(l) - len(body)
        factor = body.startswith('....')
        if factor:
            body = body[4:]
        items.append((ind // 4, factor, int(body[:6]), body[6:]))

    def parse(i, level):
        out = []
        while i < len(items) and items[i][0] >= level:
            lv, factor, d, rest = items[i]
            if lv > level:
                raise ValueError('unexpected indentation at %06d' % d)
            F = d // 100000
            i += 1
            if F == 0:
                out.append(('E', d))
            elif F == 2:
                out.append(('O', d))
            elif F == 3:
                sub, i = parse(i, level + 1)
                out.append(('S', d, sub))
            else:
                f = None
                if i < len(items) and items[i][1] and items[i][0] == level:
                    f = items[i][2]
                    i += 1
                sub, i = parse(i, level + 1)
                out.append(('R', d, f, sub))
        return out, i
    nodes, i = parse(0, 0)
    if i != len(items):
        raise ValueError('trailing lines')
    return nodes


def run_cli_part(lists):
    """`pybufrkit lookup <ids>`: the printed indentation is the ownership tree; element lines end with unit, scale,
    reference, width of the table row.  `pybufrkit info -t <file>`: the template of a message."""
    from mc.engine.cli import run_cli
    p = Partial()
    B, D = S.tables_for(33)
    scratch = os.environ.get('VERIF_SCRATCH') or '/dev/shm'
    fn = os.path.join(scratch, 'c14_%d.bufr' % os.getpid())
    try:
        for ids, shape in lists:
            case = {'ids': ids}
            out, err, exc, code = run_cli(['lookup', '--master-table-version', '33', ','.join('%06d' % d for d in ids)])
            p.n['exec'] += 1
            p.outcome(('lookup', len(ids), T.nesting(shape)))
            if exc is not None or code not in (None, 0):
                p.violation('cli-lookup-fails', case, 'ended with %r / exit %r: %s' % (exc, code, err[-200:]))
                continue
            lines = out.split('\n')[:-1]
            try:
                got = _parse_printed_tree(lines)
            except Exception as e:
                p.violation('cli-lookup-unparsable', case, '%r: %r' % (e, lines[:6]))
                continue
            if got != shape:
                p.violation('cli-lookup-tree', case, 'printed ownership %r, FM-94 gives %r' % (got, shape))
                continue
            for l in lines:
                if l[:1] == '0' and not l.startswith('....'):
                    d = int(l[:6])
                    name, unit, scale, ref, width = B[d]
                    if not l.endswith(', %s, %s, %s, %s' % (unit, scale, ref, width)) or not l.startswith('%06d %s' % (d, name)):
                        p.violation('cli-lookup-attributes', case, 'line %r, table row %r' % (l, B[d]))
                        break
            # the same list as the template of a message
            b = message.build(message.Spec(descs=ids, nsub=0), b'')[0]
            with open(fn, 'wb') as f:
                f.write(b)
            out, err, exc, code = run_cli(['info', '-t', fn])
            p.n['exec'] += 1
            p.outcome(('info-t', len(ids), T.nesting(shape)))
            lines = out.split('\n')[:-1]
            k = next((i for i, l in enumerate(lines) if l.startswith('BufrTemplate')), None)
            if exc is not None or k is None:
                p.violation('cli-info-template-missing', case, '%r %r' % (exc, lines[-3:]))
                continue
            try:
                got = _parse_printed_tree([l[4:] for l in lines[k + 1:]])
            except Exception as e:
                p.violation('cli-info-unparsable', case, '%r: %r' % (e, lines[k:k + 6]))
                continue
            if got != shape:
                p.violation('cli-info-tree', case, 'printed ownership %r, FM-94 gives %r' % (got, shape))
    finally:
        if os.path.exists(fn):
            os.remove(fn)
    return p


def private_root(base):
    """a second tables directory that holds fewer versions than the bundled one (links to the bundled version directories)"""
    root = os.path.join(base, 'c14_private_tables_%d' % os.getpid())
    if not os.path.isdir(root):
        os.makedirs(os.path.join(root, '0', '0_0'))
        os.makedirs(os.path.join(root, '0', '98_0'))
        for v in ('13', '33'):
            os.symlink(os.path.join(ROOT, '0', '0_0', v), os.path.join(root, '0', '0_0', v))
        os.symlink(os.path.join(ROOT, '0', '98_0', '1'), os.path.join(root, '0', '98_0', '1'))
    return root


ROOT_REQUESTS = [(r, mver, lver) for r in ('bundled', 'private') for mver in (13, 25, 33) for lver in (0, 1)]


def run_select_roots(args):
    """histories of table-group requests against TWO tables directories with different contents, from a reset cache: every
    request must be answered by the documented fall-back applied to ITS directory"""
    import shutil
    import pybufrkit.tables as pt
    hists, = args
    p = Partial()
    base = os.environ.get('VERIF_SCRATCH') or '/dev/shm'
    proot = private_root(base)
    try:
        for h in hists:
            implstate.reset_table_cache()
            p.n['nodes'] += 1
            for step, k in enumerate(h):
                rname, mver, lver = ROOT_REQUESTS[k]
                root = None if rname == 'bundled' else proot
                p.n['exec'] += 1
                p.n['edges'] += 1
                case = {'history': list(h), 'step': step}
                with contextlib.redirect_stderr(io.StringIO()):
                    try:
                        tg = pt.TableGroupCacheManager.get_table_group(tables_root_dir=root, master_table_number=0,
                                                                       originating_centre=98, originating_subcentre=0,
                                                                       master_table_version=mver, local_table_version=lver,
                                                                       normalize=1)
                    except Exception as e:
                        p.violation('select-roots-raises:' + type(e).__name__, case,
                                    'request %r after %r raised %r' % (ROOT_REQUESTS[k], [ROOT_REQUESTS[j] for j in h[:step]], e))
                        break
                wmo, local = expected_key(0, 98, 0, mver, lver, root)
                got = (tuple(tg.key.wmo_tables_sn), tuple(tg.key.local_tables_sn) if tg.key.local_tables_sn else None)
                p.outcome((rname, wmo[2] == str(mver), local is not None, step))
                B, D = tables.load_sn(wmo, local)
                sizes = (len(tg.B.descriptors), len(tg.D.descriptors))
                if got != (wmo, local) or sizes != (len(B), len(D)):
                    p.violation('select-roots|%s' % ('key' if got != (wmo, local) else 'content'), case,
                                'request %r after %r: selected %r with %r entries, the fall-back applied to that directory gives %r '
                                'with %r entries' % (ROOT_REQUESTS[k], [ROOT_REQUESTS[j] for j in h[:step]], got, sizes, (wmo, local),
                                                     (len(B), len(D))))
                    break
    finally:
        shutil.rmtree(proot, ignore_errors=True)
    return p


def replay(part, case):
    if part == 'cli':
        B, D = S.tables_for(33)
        p = run_cli_part([(case['ids'], T.tree(case['ids'], D))])
        return [{'sig': x['sig'], 'detail': x['detail']} for x in p.viol]
    if part == 'select-roots':
        p = run_select_roots(([tuple(case['history'])],))
        return [{'sig': x['sig'], 'detail': x['detail']} for x in p.viol]
    if part == 'tableD':
        v = case['version']
        master = int(v.split('+')[0])
        local = None
        if '+' in v:
            c, lv = v.split('+')[1].split('/')
            local = (int(c.split('_')[0]), int(c.split('_')[1]), int(lv))
        p = run_tabled([(master, local)])
        return [{'sig': x['sig'], 'detail': x['detail']} for x in p.viol if x['case']['id'] == case['id']]
    if part == 'select':
        p = run_select([(case['master_table_number'], case['centre'], case['subcentre'], case['master_version'],
                         case['local_version'])])
        return [{'sig': x['sig'], 'detail': x['detail']} for x in p.viol]
    if part == 'unknown-in-scope':
        p = run_unknown_scopes([sc for sc in SCOPES if sc[0] == case['scope']])
        return [{'sig': x['sig'], 'detail': x['detail']} for x in p.viol
                if all(x['case'][k] == case[k] for k in ('ids', 'compressed', 'nsub', 'fill', 'compiled_cache'))]
    if part == 'unknown':
        p = run_unknown((len(case['ids']), [case['ids'][0]]))
        return [{'sig': x['sig'], 'detail': x['detail']} for x in p.viol
                if x['case']['ids'] == case['ids'] and x['case']['position'] == case['position']
                and x['case']['undefined'] == case['undefined']]
    if part == 'sweep':
        p = run_sweep([case['ids']])
    else:
        p = run_lists((len(case['ids']), [case['ids'][0]]))
    return [{'sig': x['sig'], 'detail': x['detail']} for x in p.viol if x['case']['ids'] == case['ids']]


def main(tier, seed):
    rep = Report(PID, tier, seed)
    rep.rule = ('tableD: one execution per Table B / Table D entry per version; lists: one per well-formed list; unknown: one '
                'per (list, position, undefined descriptor); select: one per selection tuple; outcome classes = (size, '
                'well-formed, nesting) / (length, nesting, replications) / (result, replaced kind, undefined kind) / (version '
                'bundled, local found, sub-centre matched)')
    rep.trusted_base = ['mc.ref.template (index-arithmetic ownership), mc.ref.tables (plain JSON reading)']
    rep.assumptions = ['lists in which a replication runs past the end of its scope or lacks its factor are not FM-94 '
                       'descriptor lists and are not generated',
                       'Table D entries that are themselves ill formed (counted as illformed_entries) are compared by flat '
                       'expansion only',
                       'an undefined SEQUENCE is not substituted in the position of a delayed-replication factor (that changes '
                       'the structure of the list); an undefined element is']
    versions = [(v, None) for v in tables.master_versions()] + [(13, loc) for loc in tables.local_dirs()]
    k = seed % len(versions)
    p = merge_all(run_shards(run_tabled, [[v] for v in versions[k:] + versions[:k]]))
    p.n['nodes'], p.n['edges'] = p.n['exec'] + 1, p.n['exec']
    rep.add_part('tableD', p, bounds={'versions': len(versions)})
    maxlen = 6 if tier == 'quick' else 8
    p = merge_all(run_shards(run_lists, [(maxlen, [f]) for f in SYMS]))
    p.n['nodes'], p.n['edges'] = p.n['exec'] + 1, p.n['exec']
    rep.add_part('lists', p, bounds={'max_length': maxlen, 'alphabet': SYMS, 'max_nesting': 4,
                                     'candidates': sum(len(SYMS) ** n for n in range(1, maxlen + 1))})
    sl = sweep_lists()
    p = merge_all(run_shards(run_sweep, split(sl, 16)))
    p.n['nodes'], p.n['edges'] = p.n['exec'] + 1, p.n['exec']
    p.sample({'ids': sl[5]})
    rep.add_part('sweep', p, bounds={'X': '1..63', 'lists': len(sl)})
    ulen = 4 if tier == 'quick' else 5
    p = merge_all(run_shards(run_unknown, [(ulen, [f]) for f in SYMS]))
    p.n['nodes'], p.n['edges'] = p.n['exec'] + 1, p.n['exec']
    rep.add_part('unknown', p, bounds={'max_length': ulen})
    p = merge_all(run_shards(run_unknown_scopes, [[sc] for sc in SCOPES]))
    rep.add_part('unknown-in-scope', p, bounds={'scopes': [n_ for n_, _ in SCOPES], 'undefined_ids': UNKNOWN_IDS,
                                                'envelopes': ['1 subset', '2 subsets', '2 subsets compressed'],
                                                'data_fill': ['00', '55'], 'decoders': ['plain', 'compiled (first and cached run)']},
                 rule='an undefined element (classes 63, 12, 02, 31, 33) or sequence inside the scope of 221 / 201 / 202 / 207 / 208 / '
                      '204 / 203 / after 222 / as bitmap target must raise UnknownDescriptor; after 206 it is legitimately skipped')
    combos = list(itertools.product((0, 1, 10), (0, 7, 98, 99), (0, 3), range(0, 46), (0, 1, 2, 3, 4, 101)))
    p = merge_all(run_shards(run_select, split(combos, 32)))
    p.n['nodes'], p.n['edges'] = p.n['exec'] + 1, p.n['exec']
    p.sample({'combo': combos[100]})
    rep.add_part('select', p, bounds={'combinations': len(combos)})
    cl = list(wellformed_lists(4 if tier == 'quick' else 5))
    p = merge_all(run_shards(run_cli_part, split(cl, 32)))
    p.n['nodes'], p.n['edges'] = p.n['exec'] + 1, p.n['exec']
    rep.add_part('cli', p, bounds={'lists': len(cl), 'max_length': 4 if tier == 'quick' else 5, 'commands': ['lookup', 'info -t']})
    n = len(ROOT_REQUESTS)
    maxlen = 2 if tier == 'quick' else 3
    hists = [h for L in range(1, maxlen + 1) for h in itertools.product(range(n), repeat=L)]
    p = merge_all(run_shards(run_select_roots, [(s_,) for s_ in split(hists, 32)]))
    rep.add_part('select-roots', p, bounds={'requests': ROOT_REQUESTS, 'max_length': maxlen, 'histories': len(hists),
                                            'directories': 'bundled; private (master versions 13 and 33, local 98_0/1 only)'})
    return rep.finish()
