"""
C12 -- damage is detected, reported as a library error, and isolated to one message.
Level: fault_enumeration (every fault of a stated finite menu at every position).

Parts:
  truncate   EVERY proper prefix (byte granularity) of every pool message (C11 pool, C04 structures slice,
             G(1,1) samples) and of every sample-corpus message below a size limit; for larger corpus messages
             every prefix length inside sections 0-3, within +-8 octets of every section boundary and the last
             264 octets.  Decoder.process(prefix) must not return a message.
  trailing   bytes after a message {NUL, '7777', 'BUFR', another message, 64 kB of 0xFF} never change what is
             decoded (values, labels, links, exact span).
  streams    streams of j messages; each position takes a fault from the menu (E1: option 0 = undamaged; the
             deviation bound is the number of damaged messages, so every subset of positions up to the bound is
             damaged with every combination of faults):
               stop signature: each of its 4 bytes overwritten (one bit flipped inside the text range; the high bit set), all four 0xFF / NUL / an invalid UTF-8 pair;
               undefined element 063254 / undefined sequence 363254 substituted at every descriptor position;
               declared length of section 1..4 decreased / increased by 1, 2, 3/4 and 100 (total length intact).
             x {full, metadata-only} x {continue_on_error, stop on error}.
  decoder-history  every (message, fault) x an earlier operation on the SAME decoder object (a decode that ignores value
             expectations, a metadata-only decode, another edition, a continue-on-error scan, a filtered scan) x 4 modes:
             the scan must deliver what a fresh decoder delivers.
  cli        `pybufrkit decode -m [--continue-on-error]` on damaged files: a report on stderr, no traceback.
Oracle: the harness knows which messages were damaged and where.
"""
import contextlib
import io
import itertools
import os

from mc.engine import tree
from mc.engine.harness import Partial, Report, merge_all
from mc.engine.pool import run_shards, split
from mc.gen import corpus
from mc.gen import scenario as S
from mc.ref import codec, message

PID = 'C12'
_dec = None


def decoder():
    global _dec
    if _dec is None:
        from pybufrkit.decoder import Decoder
        _dec = Decoder()
    return _dec


# ------------------------------------------------------------------------------------------
# truncation
def prefix_lengths(m, mode):
    """mode: 'full' every proper prefix; 'b264' / 'b16': every prefix inside sections 0-3, within +-8 octets of every
    section boundary and the last 264 / 16 octets; 'ends': sections 0-3, +-2 octets of boundaries, the last 5 octets"""
    n = len(m)
    if mode == 'full':
        return list(range(0, n))
    pm = message.parse(m)
    near, last = (2, 5) if mode == 'ends' else (8, 264 if mode == 'b264' else 16)
    keep = set(range(0, min(n, pm.sections[4][0] + 4 + near)))
    for k, (off, ln) in pm.sections.items():
        for x in range(off - near, off + near + 1):
            if 0 <= x < n:
                keep.add(x)
    keep.update(range(max(0, n - last), n))
    return sorted(keep)


def truncate_mode(n, tier):
    if tier == 'quick':
        return 'full' if n <= 2000 else ('b16' if n <= 20000 else 'ends')
    return 'full' if n <= 8000 else ('b264' if n <= 100000 else 'b16')


def truncate_work(msgs, tier, chunk_cost=1500000):
    """[(message triple, mode, [prefix lengths])] chunks of bounded decoding cost, most expensive first"""
    work = []
    for mt in msgs:
        mode = truncate_mode(len(mt[2]), tier)
        cur, cost = [], 0
        for n in prefix_lengths(mt[2], mode):
            cur.append(n)
            cost += n + 200
            if cost >= chunk_cost:
                work.append((cost, mt, mode, cur))
                cur, cost = [], 0
        if cur:
            work.append((cost, mt, mode, cur))
    work.sort(key=lambda w: -w[0])
    return [(mt, mode, ns) for cost, mt, mode, ns in work]


def run_truncate(work):
    from pybufrkit.errors import PyBufrKitError
    p = Partial()
    dec = decoder()
    for (name, k, m), mode, ns in work:
        for n in ns:
            p.n['exec'] += 1
            with contextlib.redirect_stderr(io.StringIO()):
                try:
                    dec.process(m[:n], wire_template_data=False)
                    out = 'ok'
                except PyBufrKitError as e:
                    out = type(e).__name__
                except Exception as e:
                    out = 'other:' + type(e).__name__
            p.hist[out] += 1
            p.outcome((out, mode))
            if out == 'ok':
                p.violation('prefix-decodes', {'name': name, 'index': k, 'prefix': n, 'bytes': m if len(m) < 4000 else None},
                            'the first %d of %d bytes of %s decode successfully' % (n, len(m), name))
        p.n['chunks_' + mode] += 1
    return p


def generated_pool(tier, seed):
    """(name, index, bytes)"""
    from mc.checks import c04, c11
    from mc.checks import codec_common as CC
    out = [(n, 0, b) for n, b, facts in c11.pool()]
    structs = c04.structures()
    for i, st in enumerate(structs):
        if tier == 'thorough' or i % 16 == seed % 16:
            spec, buf, subs = c04.ref_message(st)
            out.append(('c04:%s-ed%d' % (st[0][0], st[1]), i, message.build(spec, buf)[0]))
    B, D = S.tables_for(33)
    for i, (name, descs) in enumerate(CC.template_pool(tier, k=1, c=1)):
        if tier == 'quick' and i % 8 != seed % 8:
            continue
        for nsub, comp in ((1, False), (2, True)):
            try:
                buf, subs, notes, nb = codec.encode(B, D, descs, nsub, comp, _default_chooser(nsub, comp))
            except (codec.RefError, ValueError):
                continue
            if notes:
                continue
            out.append(('G:%s' % name, i, message.build(message.Spec(descs=descs, nsub=nsub, compressed=comp), buf)[0]))
    return out


def _default_chooser(nsub, comp):
    def ch(info):
        if info['kind'] == 'str':
            v = b'k' * (info['width'] // 8)
        elif info.get('role') == 'factor':
            v = 1
        elif info.get('role') == 'bit':
            v = 0
        elif info['kind'] == 'refdef':
            v = -3 if info['width'] > 3 else 0
        else:
            v = 1 if info['width'] > 1 else 0
        return [v] * nsub if comp else v
    return ch


# ------------------------------------------------------------------------------------------
# trailing bytes
def observe(b):
    st = S.impl_decode(decoder(), b, wire_template_data=False)
    if st[0] == 'exc':
        return ('exc', st[1])
    return ('ok', st[1], st[2].serialized_bytes)


def run_trailing(msgs):
    p = Partial()
    other = message.build(message.Spec(descs=[1001], nsub=1), _bits(5, 7))[0]
    trails = [b'\0', b'7777', b'BUFR', other, b'\xff' * 65536, b'BUFR\x00\x00\x0c\x047777']
    for name, k, m in msgs:
        base = observe(m)
        if base[0] != 'ok':
            p.n['undecodable'] += 1
            continue
        for ti, t in enumerate(trails):
            p.n['exec'] += 1
            got = observe(m + t)
            p.outcome((ti, got[0]))
            if got != base:
                if got[0] == 'ok' and base[2] == got[2] and len(got[1]) == len(base[1]) and all(
                        a[0] == b[0] and a[2] == b[2] and len(a[1]) == len(b[1]) and all(S.same_value(x, y) for x, y in zip(a[1], b[1]))
                        for a, b in zip(got[1], base[1])):
                    continue     # NaN-free float equality fallback
                p.violation('trailing-bytes-change-result', {'name': name, 'index': k, 'trail': ti,
                                                             'bytes': m if len(m) < 4000 else None},
                            'appending %d bytes (%r...) changes the decode of %s' % (len(t), t[:8], name))
    return p


def _bits(v, w):
    from mc.ref.bits import BitBuf
    b = BitBuf()
    b.put(v, w)
    return b


# ------------------------------------------------------------------------------------------
# streams
LENGTH_DELTAS = (-1, 1, -2, 2, -4, 3, 100)      # declared section length decreased / increased

U_ELEM, U_SEQ = (0 << 14) | (63 << 8) | 254, (3 << 14) | (63 << 8) | 254

_SPOOL = None


def stream_pool():
    """messages for the stream part: no 206/221/zero-count constructs (an undefined descriptor must be reached)"""
    global _SPOOL
    if _SPOOL is None:
        B, D = S.tables_for(33)
        defs = [('A-ed4', 4, None, [1001, 5002], 1, False),
                ('B-ed3-comp-sec2', 3, b'\x01\x02\x03', [1001, 2001, 10], 2, True),
                ('C-ed2-BUFR-in-data', 2, None, [205004, 1001, 205004], 1, False),
                ('D-ed4-repl', 4, b'BUFR', [101002, 2001, 1001], 2, False),
                ('E-ed4-empty-sec2', 4, b'', [1001], 1, False),
                ('F-ed4-message-in-data', 4, None, [205000 + len(_inner())], 1, False),
                ('G-ed4-trailing-delayed-repl', 4, None, [1001, 101000, 31001, 2001], 1, False),
                ('H-ed3-comp-repl', 3, None, [1001, 5002, 102002, 2001, 10], 2, True),
                # (used in the single-message streams only) compressed with a delayed replication; a bitmap with quality values
                ('I-ed4-comp-delayed', 4, None, [1001, 101000, 31001, 12001], 3, True),
                ('J-ed4-bitmap', 4, None, [1001, 1002, 12001, 222000, 236000, 101003, 31031, 31021, 101002, 33007], 1, False)]
        out = []
        for name, ed, s2, descs, nsub, comp in defs:
            def ch(info, comp=comp, nsub=nsub):
                if info['kind'] == 'str' and info['width'] > 32:
                    v = _inner()      # a complete valid message, octet aligned, inside the data section
                elif info['kind'] == 'str':
                    v = (b'BUFR' if info['index'] == 0 else b'7777')[:info['width'] // 8]
                elif info.get('role') == 'bit':
                    v = [0, 1, 0][info['index'] % 3]
                elif info.get('role') == 'factor':
                    v = 2
                else:
                    v = 1 + info['index'] % 2
                return [v] * nsub if comp else v
            buf, subs, notes, nb = codec.encode(B, D, descs, nsub, comp, ch)
            b = message.build(message.Spec(edition=ed, sec2=s2, descs=descs, nsub=nsub, compressed=comp), buf)[0]
            out.append((name, b, faults_for(b)))
        _SPOOL = out
    return _SPOOL


def _inner():
    return message.build(message.Spec(descs=[1001], nsub=1), _bits(5, 7))[0]


def faults_for(b):
    """[(label, class, damaged bytes)]"""
    pm = message.parse(b)
    out = []
    for i in range(4):
        c = bytearray(b)
        c[len(b) - 4 + i] ^= 0x08
        out.append(('stop%d' % i, 'stop', bytes(c)))
    # the same with bytes that are not text (high bit set: no valid UTF-8 / ASCII), and wholesale overwrites
    for i in range(4):
        c = bytearray(b)
        c[len(b) - 4 + i] ^= 0x80
        out.append(('stopH%d' % i, 'stop', bytes(c)))
    for lab, fill in (('stopFF', b'\xff' * 4), ('stop00', b'\0' * 4), ('stopC3', b'77\xc3\x28')):
        c = bytearray(b)
        c[len(b) - 4:] = fill
        out.append((lab, 'stop', bytes(c)))
    off3, n3 = pm.sections[3]
    for k in range(len(pm.descs)):
        for lab, code in (('elem', U_ELEM), ('seq', U_SEQ)):
            c = bytearray(b)
            c[off3 + 7 + 2 * k: off3 + 9 + 2 * k] = code.to_bytes(2, 'big')
            out.append(('undef-%s@%d' % (lab, k), 'descriptor', bytes(c)))
    for sec in (1, 2, 3, 4):
        if sec not in pm.sections:
            continue
        off, n = pm.sections[sec]
        for delta in LENGTH_DELTAS:
            if n + delta < 0:
                continue
            c = bytearray(b)
            c[off:off + 3] = (n + delta).to_bytes(3, 'big')
            out.append(('len%d%+d' % (sec, delta), 'length', bytes(c)))
    return out


SEPS = [b'', b'\r\r\n042\r\r\nISMD01 OKPR 010000\r\r\n']


def scan(stream, info_only, cont, dec=None):
    """-> (list of yielded byte strings, terminating exception or None)"""
    from pybufrkit.decoder import generate_bufr_message
    out = []
    with contextlib.redirect_stderr(io.StringIO()):
        try:
            for m in generate_bufr_message(dec or decoder(), stream, info_only=info_only, continue_on_error=cont,
                                           wire_template_data=False):
                out.append(m.serialized_bytes)
        except Exception as e:
            return out, e
    return out, None


def judge_scan(items, got, exc, info_only, cont):
    """items: [(bytes in stream, damaged?, original)] -> None or (sig, detail)"""
    from pybufrkit.errors import PyBufrKitError
    mode = 'info' if info_only else 'full'
    if exc is not None and not isinstance(exc, PyBufrKitError):
        return 'scan-raises:%s|%s' % (type(exc).__name__, mode), 'the scan ended with %r, which is not the library error type' % (exc,)
    damaged_any = any(d for _, d, _ in items)
    if cont and exc is not None:
        return 'continue-raises|%s' % mode, 'continue_on_error scan raised %r' % (exc,)
    # align: got must be a subsequence of the stream's items, in order (greedy); an item of got that matches nothing
    # is a phantom; undamaged items are mandatory (until the scan legitimately stopped); a damaged item may only appear
    # in metadata-only mode, with exactly its own bytes
    matched = [False] * len(items)
    pos = 0
    for g in got:
        k = next((i for i in range(pos, len(items)) if items[i][0] == g), None)
        if k is None:
            over = next((d for b, d, _ in items[pos:] if d and len(g) > len(b) and g.startswith(b)), None)
            if over:
                return ('damaged-delivered-overlong-%s|%s' % (over, mode),
                        'a damaged message was delivered, with a span of %d bytes that reaches beyond its declared total '
                        'length into what follows it (yielded lengths %r)' % (len(g), [len(x) for x in got]))
            holders = [d for b, d, _ in items[pos:] if d and g in b]
            # several damaged messages may hold the same payload: attribute to the length-damaged one if there is one
            inside = 'length' if 'length' in holders else (holders[0] if holders else None)
            return ('extra%s|%s' % ('-phantom-in-payload-of-%s-damaged' % inside if inside else '', mode),
                    'the scan yielded an item of %d bytes that is not a message of the stream%s (yielded lengths %r)'
                    % (len(g), ': it lies inside the payload of a damaged message' if inside else '', [len(x) for x in got]))
        matched[k] = True
        pos = k + 1
    stopped = False
    for (b, dmg, orig), hit in zip(items, matched):
        if dmg:
            if hit and not info_only:
                return 'damaged-delivered|full', 'a damaged message (%d bytes) was delivered by the full scan' % len(b)
            if not hit and not cont:
                stopped = True      # stop on error: nothing more may be delivered
                continue
        elif stopped:
            if hit:
                return 'delivered-after-error|%s' % mode, 'a message was delivered after the scan met a damaged one without continue_on_error'
        elif not hit:
            return ('missing|%s' % mode,
                    'an undamaged message (%d bytes) was not delivered unchanged at its position (yielded lengths %r)'
                    % (len(b), [len(x) for x in got]))
    if stopped and exc is None:
        return 'no-error|%s' % mode, 'a damaged message was neither delivered nor reported although continue_on_error is off'
    if not cont and not stopped and exc is not None:
        return 'spurious-error|%s' % mode, 'error %r although every message was delivered' % (exc,)
    return None


def core_fault(label):
    """the reduced menu used where two or more messages are damaged at once"""
    return label in ('stop0', 'stop3', 'stopH2', 'undef-elem@0') or label.startswith('undef-seq@') and label.endswith('@0') \
        or (label.startswith('len') and label[-2:] in ('-1', '+1'))


def mini_fault(label):
    """two faults per message, for streams in which several messages are damaged and more follow"""
    return label in ('stop0', 'undef-elem@0')


def stream_body(tup, menu='full', ccmax=None):
    P = stream_pool()
    if menu == 'core':
        P = [(n, b, [f for f in fs if core_fault(f[0])]) for n, b, fs in P]
    elif menu == 'mini':
        P = [(n, b, [f for f in fs if mini_fault(f[0])]) for n, b, fs in P]

    def body(ctx):
        sep = SEPS[ctx.pick('sep', len(SEPS), 'S')] if len(tup) == 2 else b''
        items = []
        classes = []
        for pos, mi in enumerate(tup):
            name, b, faults = P[mi]
            f = ctx.pick('fault%d' % pos, len(faults) + 1, 'D')
            if f == 0:
                items.append((b, False, b))
            else:
                items.append((faults[f - 1][2], faults[f - 1][1], b))
                classes.append(faults[f - 1][1])
        stream = sep + sep.join(x[0] for x in items) + sep
        res = {'outcome': (len(tup), tuple(sorted(classes))), 'stream': stream, 'viols': []}
        for info_only in ((False, True) if ccmax is None else (False,)):
            for cont in (True, False):
                dec = None
                if ccmax is not None:
                    # one decoder with template compilation for the whole stream (the compiled-template cache lives in it)
                    from pybufrkit.decoder import Decoder
                    dec = Decoder(compiled_template_cache_max=ccmax)
                got, exc = scan(stream, info_only, cont, dec)
                v = judge_scan(items, got, exc, info_only, cont)
                if v:
                    res['viols'].append((v[0] + '|' + '+'.join(sorted(set(classes))) + ('' if ccmax is None else '|compiled'),
                                         v[1], info_only, cont))
        return res
    return body


def run_streams(args):
    tuples, bound, menu = args[:3]
    ccmax = args[3] if len(args) > 3 else None
    p = Partial()
    st = tree.Stats()
    for tup in tuples:
        def on_leaf(ctx, res, tup=tup):
            p.n['exec'] += 4 if ccmax is None else 2
            p.outcome(res['outcome'])
            for sig, detail, io_, cont in res['viols']:
                p.violation(sig, {'tuple': list(tup), 'choices': ctx.vector(), 'info_only': io_, 'cont': cont, 'menu': menu,
                                  'ccmax': ccmax}, detail,
                            observed=res['stream'])
            if not res['viols'] and p.n['exec'] % 4000 == 4:
                p.sample({'tuple': list(tup), 'choices': ctx.vector()})
        tree.explore(stream_body(tup, menu, ccmax), bound, on_leaf, st)
    p.n['nodes'] += st.nodes
    p.n['edges'] += st.edges
    return p


# ------------------------------------------------------------------------------------------
# what ONE decoder object did before must not weaken the detection of damage
PRE_OPS = ['none', 'ignore-expectation:good', 'ignore-expectation:damaged', 'info-only:good', 'info-only:ed4', 'scan-continue',
           'full:ed4', 'filter-scan']


def _pre(dec, op, good, dmg, ed4):
    from pybufrkit.decoder import generate_bufr_message
    with contextlib.redirect_stderr(io.StringIO()):
        try:
            if op == 'ignore-expectation:good':
                dec.process(good, ignore_value_expectation=True, wire_template_data=False)
            elif op == 'ignore-expectation:damaged':
                dec.process(dmg, ignore_value_expectation=True, wire_template_data=False)
            elif op == 'info-only:good':
                dec.process(good, info_only=True)
            elif op == 'info-only:ed4':
                dec.process(ed4, info_only=True)
            elif op == 'full:ed4':
                dec.process(ed4, wire_template_data=False)
            elif op == 'scan-continue':
                list(generate_bufr_message(dec, good + dmg + good, continue_on_error=True, wire_template_data=False))
            elif op == 'filter-scan':
                list(generate_bufr_message(dec, ed4 + good, filter_expr='${%edition} > 0', continue_on_error=True,
                                           wire_template_data=False))
        except Exception:
            pass


def run_history(mis):
    """for every (message, fault, earlier operation on the same decoder): the scan of [good, damaged, good] in the four
    modes gives what a fresh decoder gives (which the streams part judges against the known damage)"""
    from pybufrkit.decoder import Decoder
    p = Partial()
    P = stream_pool()
    ed4 = P[0][1]
    for mi in mis:
        name, b, faults = P[mi]
        good = P[(mi + 1) % len(P)][1]
        for lab, cls, dmg in faults:
            stream = good + dmg + good
            ref = {}
            for op in PRE_OPS:
                for info_only in (False, True):
                    for cont in (True, False):
                        dec = Decoder()
                        _pre(dec, op, good, dmg, ed4)
                        got, exc = scan(stream, info_only, cont, dec)
                        obs = (tuple(got), type(exc).__name__ if exc is not None else None)
                        p.n['exec'] += 1
                        p.n['edges'] += 1
                        if op == 'none':
                            ref[(info_only, cont)] = obs
                            p.outcome((cls, info_only, cont, len(got), obs[1]))
                        elif obs != ref[(info_only, cont)]:
                            p.violation('history|%s|%s|%s' % (op, cls, 'info' if info_only else 'full'),
                                        {'message': mi, 'fault': lab, 'pre': op, 'info_only': info_only, 'cont': cont},
                                        'after %s on the same decoder the scan of [good, %s-damaged, good] delivers %r / %s; a '
                                        'fresh decoder delivers %r / %s' % (op, lab, [len(x) for x in obs[0]], obs[1],
                                                                            [len(x) for x in ref[(info_only, cont)][0]],
                                                                            ref[(info_only, cont)][1]))
        p.n['nodes'] += 1
    return p


def run_cli_part(_):
    from mc.engine.cli import run_cli
    p = Partial()
    P = stream_pool()
    scratch = os.environ.get('VERIF_SCRATCH') or '/dev/shm'
    fn = os.path.join(scratch, 'c12_%d.bufr' % os.getpid())
    try:
        for mi, (name, b, faults) in enumerate(P):
            good = P[(mi + 1) % len(P)][1]
            for lab, cls, dmg in faults:
                for cont in (False, True):
                    p.n['exec'] += 1
                    with open(fn, 'wb') as f:
                        f.write(good + dmg + good)
                    argv = ['decode', '-m'] + (['--continue-on-error'] if cont else []) + [fn]
                    out, err, exc, code = run_cli(argv)
                    case = {'message': mi, 'fault': lab, 'cont': cont}
                    reported = bool(err.strip()) and 'Traceback' not in err
                    p.outcome((cls, cont, exc is None, reported))
                    if exc is not None:
                        p.violation('cli-traceback:%s|%s' % (type(exc).__name__, cls), case,
                                    'decode -m on a file with a %s fault ended with %r' % (lab, exc))
                    elif not reported:      # some report on stderr, whatever its wording, and no traceback
                        p.violation('cli-no-error-line|%s' % cls, case, 'stderr: %r' % err[-200:])
    finally:
        if os.path.exists(fn):
            os.remove(fn)
    return p


def replay(part, case):
    if part == 'truncate' or part == 'trailing':
        if case.get('bytes') is None:
            from mc.gen.corpus import TESTS, scan as cscan
            m = cscan(open(os.path.join(TESTS, case['name']), 'rb').read())[case['index']]
        else:
            m = case['bytes']
        if part == 'truncate':
            try:
                with contextlib.redirect_stderr(io.StringIO()):
                    decoder().process(m[:case['prefix']], wire_template_data=False)
                return [{'sig': 'prefix-decodes', 'detail': 'prefix %d decodes' % case['prefix']}]
            except Exception:
                return []
        p = run_trailing([(case['name'], case['index'], m)])
        return [{'sig': v['sig'], 'detail': v['detail']} for v in p.viol if v['case']['trail'] == case['trail']]
    if part == 'decoder-history':
        p = run_history([case['message']])
        return [{'sig': v['sig'], 'detail': v['detail']} for v in p.viol
                if all(v['case'][k] == case[k] for k in ('message', 'fault', 'pre', 'info_only', 'cont'))]
    if part == 'cli':
        p = run_cli_part(None)
        return [{'sig': v['sig'], 'detail': v['detail']} for v in p.viol
                if all(v['case'][k] == case[k] for k in ('message', 'fault', 'cont'))]
    ctx, res = tree.replay(stream_body(tuple(case['tuple']), case.get('menu', 'full'), case.get('ccmax')), case['choices'])
    return [{'sig': s, 'detail': d} for s, d, io_, cont in res['viols'] if io_ == case['info_only'] and cont == case['cont']]


def main(tier, seed):
    rep = Report(PID, tier, seed, level='fault_enumeration')
    rep.rule = ('truncate: one execution per (message, prefix length); streams: message tuple x fault per position (option 0 '
                '= undamaged, deviation = a damaged message) x 2 modes x 2 error policies; outcome class = (stream length, '
                'fault classes present) / (exception class, prefix family)')
    rep.trusted_base = ['the harness applies every fault itself, so it knows which messages are damaged; mc.ref.message for '
                        'section offsets']
    rep.assumptions = ['metadata-only scanning cannot see damage in sections 4/5 or in the meaning of descriptors, and cannot '
                       'tell a shifted section from a valid one: in that mode a damaged message may be delivered, but only '
                       'with exactly its own bytes and at its own position (C17 requires metadata-only decoding to succeed on '
                       'messages with damaged data)',
                       'an undefined descriptor is substituted only in templates where every descriptor is reached (no 206, '
                       '221, zero-count replication)',
                       'prefixes may fail with any exception (histogram in evidence); streams and the command line must use '
                       'the library error type']
    cmsgs = list(corpus.messages())
    if tier == 'quick':
        # quick: at most 2 corpus messages per (descriptor list, edition, compression): the sample files hold hundreds of
        # messages of the same template; thorough takes every message
        seen, keep = {}, []
        for mt in cmsgs:
            pm = message.parse(mt[2])
            key = (tuple(pm.descs), pm.edition, pm.compressed)
            seen[key] = seen.get(key, 0) + 1
            if seen[key] <= 2:
                keep.append(mt)
        cmsgs = keep
    msgs = generated_pool(tier, seed) + cmsgs
    work = truncate_work(msgs, tier)
    modes = {}
    for mt in msgs:
        modes[truncate_mode(len(mt[2]), tier)] = modes.get(truncate_mode(len(mt[2]), tier), 0) + 1
    p = merge_all(run_shards(run_truncate, [[w] for w in work]))
    p.n['nodes'], p.n['edges'] = p.n['exec'] + 1, p.n['exec']
    rep.add_part('truncate', p, bounds={'messages': len(msgs), 'messages_by_prefix_set': modes,
                                        'prefix_sets': 'full: every proper prefix (<=2000 bytes quick, <=8000 thorough); '
                                                       'b264/b16: sections 0-3, +-8 octets of every section boundary, last '
                                                       '264/16 octets; ends: sections 0-3, +-2 octets, last 5 octets'})
    tmsgs = [m for m in msgs if len(m[2]) <= (6000 if tier == 'quick' else 10 ** 9)]
    p = merge_all(run_shards(run_trailing, split(tmsgs, 64)))
    p.n['nodes'], p.n['edges'] = p.n['exec'] + 1, p.n['exec']
    rep.add_part('trailing', p, bounds={'messages': len(tmsgs), 'trailers': 6})
    idx = range(len(stream_pool()))
    idx8 = range(8)           # the two last pool messages take part in the single-message streams only
    # full menu with one damaged message at every position; reduced ("core") menu where several are damaged at once
    # the 'mini' menu (stop signature, undefined element) keeps streams affordable in which two messages of different
    # lengths are damaged and undamaged ones follow (a skip distance taken from the wrong message loses them)
    plan = ([(1, 1, 'full'), (2, 1, 'full'), (2, 2, 'core'), (3, 1, 'core'), (3, 2, 'mini')] if tier == 'quick' else
            [(1, 1, 'full'), (2, 1, 'full'), (3, 1, 'full'), (2, 2, 'full'), (3, 2, 'core'), (4, 1, 'core'), (4, 2, 'mini')])
    for j, bound, menu in plan:
        tuples = list(itertools.product(idx if j == 1 else idx8, repeat=j))
        p = merge_all(run_shards(run_streams, [(s, bound, menu) for s in split(tuples, 64)]))
        nf = [len([f for f in x[2] if menu == 'full' or (menu == 'core' and core_fault(f[0])) or (menu == 'mini' and mini_fault(f[0]))])
              for x in stream_pool()]
        rep.add_part('streams-j%d-d%d-%s' % (j, bound, menu), p,
                     bounds={'messages_in_stream': j, 'max_damaged': bound, 'pool': len(idx), 'menu': menu,
                             'faults_per_message': nf})
    # the same streams read by a decoder with template compilation (cache sizes 0, 1, 4): damage must be detected whether or
    # not a template - of this or of an equally damaged earlier message - is in the compiled-template cache
    cplan = ([(1, 2, 2, 'core'), (0, 3, 2, 'mini'), (4, 3, 2, 'mini')] if tier == 'quick' else
             [(1, 2, 2, 'full'), (1, 3, 2, 'core'), (1, 4, 2, 'mini')] +
             [(c, j, b, m) for c in (0, 4) for j, b, m in ((2, 2, 'core'), (3, 2, 'mini'))])
    for ccmax, j, bound, menu in cplan:
        if True:
            tuples = list(itertools.product(idx8, repeat=j))
            p = merge_all(run_shards(run_streams, [(s, bound, menu, ccmax) for s in split(tuples, 64)]))
            rep.add_part('streams-compiled%d-j%d-d%d-%s' % (ccmax, j, bound, menu), p,
                         bounds={'messages_in_stream': j, 'max_damaged': bound, 'pool': len(idx), 'menu': menu,
                                 'compiled_template_cache_max': ccmax, 'modes': ['full/continue', 'full/stop']})
    p = merge_all(run_shards(run_history, [[i] for i in idx8]))
    rep.add_part('decoder-history', p, bounds={'pool': len(idx), 'faults': 'full menu', 'earlier_operations': PRE_OPS,
                                               'modes': 4, 'stream': '[good, damaged, good]'})
    p = run_cli_part(None)
    p.n['nodes'], p.n['edges'] = p.n['exec'] + 1, p.n['exec']
    rep.add_part('cli', p, bounds={'invocations': p.n['exec']})
    return rep.finish()
