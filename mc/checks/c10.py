"""
C10 -- subsetting keeps exactly the selected subsets and nothing else changes.

Messages: every template of G(1,1) (thorough: nested bodies too) and bitmap constructs, with n = 1..3
(thorough 4) subsets whose data DIFFER (four value patterns incl. a subset of all-missing values, all-equal
columns and extreme values; per-subset replication counts and 203 values when uncompressed), uncompressed
and compressed -- built by the reference encoder, so the content of every subset is known by construction.
Index collections: ALL sequences over 0..n-1 of length 1..3, the full range and its reverse, as list and as
tuple; out-of-range collections {[n], [-1], [n+1], [0, n], [-1, 0]}.
Oracle per (message, collection): subset() -> Encoder -> Decoder gives n' = number of distinct indices,
subset j == source subset (j-th smallest index) (labels, values, links as the reference model expects),
bytes == the message the reference builds from the selected subsets (uncompressed) / columns satisfying
C02's rules (compressed), identification metadata / descriptors / compression flag unchanged, the source
message object unchanged (deep snapshot), out of range refused.
"""
import contextlib
import copy
import io
import itertools
import os

from mc.checks import codec_common as CC
from mc.engine import tree
from mc.engine.harness import Partial, Report, merge_all
from mc.engine.pool import run_shards, split
from mc.gen import bitmaps as BM
from mc.gen import scenario as S
from mc.ref import codec, message
from mc.ref.bits import BitBuf

PID = 'C10'
NPAT = 4


class DistinctChooser(S.StructChooser):
    """deterministic field values that make the subsets distinguishable (pattern P)"""

    def __init__(self, nsub, compressed, pattern, queues=None, free=()):
        S.StructChooser.__init__(self, None, nsub, compressed, queues or [[]], free, [0] * nsub)
        self.P = pattern
        self.has_queues = queues is not None

    def value(self, info, s):
        kind, w, role, P = info['kind'], info['width'], info.get('role'), self.P
        j = info['index']
        if role == 'factor':
            v = [1, 2, 0, 1][(s + P) % 4]
            return min(v, 1) if info['desc'] == 31000 else v
        if role == 'bit':
            return 0
        if kind == 'refdef':
            return [o for o in (-5, 0, 6) if abs(o) < (1 << (w - 1))][(s + P) % 3 if w > 3 else 0]
        if kind == 'str':
            nb = w // 8
            if P == 1 and s == 1:
                return None
            if P == 2:
                return b'A' * nb
            return bytes([65 + (s + j) % 26]) * nb
        mx = (1 << w) - 2 if w > 1 else 1
        if P == 1 and s == 1:
            return None if w > 1 else 1
        if P == 2:
            return 1 % (mx + 1)
        if P == 3:
            return mx if s % 2 == 0 else 0
        return (1 + 3 * s + j) % (mx + 1)

    def __call__(self, info):
        role = info.get('role')
        if self.has_queues and role in ('bit', 'factor') and not (role == 'factor' and info['desc'] == 31000):
            return S.StructChooser.__call__(self, info)
        if self.comp:
            if role in ('bit', 'factor') or info['kind'] == 'refdef':
                return [self.value(info, 0)] * self.nsub
            return [self.value(info, s) for s in range(self.nsub)]
        return self.value(info, info['subset'])


def collections_for(n, maxlen=3):
    """[(collection, expected distinct sorted indices or None if it must be refused)]"""
    out = []
    seen = set()
    for L in range(1, maxlen + 1):
        for t in itertools.product(range(n), repeat=L):
            out.append(list(t))
            seen.add(t)
    for t in (tuple(range(n)), tuple(reversed(range(n)))):
        if t not in seen:
            out.append(list(t))
            seen.add(t)
    res = [(c, sorted(set(c))) for c in out]
    res += [(tuple(c), sorted(set(c))) for c in out if len(c) > 1 and (len(set(c)) < len(c) or list(c) != sorted(c))][:12]
    for bad in ([n], [-1], [n + 1], [0, n], [-1, 0], (n,), [0, -1]):
        res.append((bad, None))
    return res


def build_source(descs, nsub, comp, pattern, queues=None, free=()):
    """-> (bytes, spec, subs, per-subset data BitBufs or None)"""
    B, D = S.tables_for(33)
    ch = DistinctChooser(nsub, comp, pattern, queues, free)
    if comp:
        buf, subs, notes, nb = codec.encode(B, D, descs, nsub, True, ch)
        bufs = None
    else:
        port = codec.EncPort(ch, nsub, False)
        subs, notes, bufs = [], [], []
        for s in range(nsub):
            start = port.buf.n
            it = codec.Interp(B, D, port, s)
            it.run(descs)
            notes += it.ambiguous
            subs.append(codec._collect(it, 0))
            nbits = port.buf.n - start
            bb = BitBuf()
            bb.put(port.buf.v & ((1 << nbits) - 1), nbits)
            bufs.append(bb)
        buf = port.buf
    if notes:
        raise codec.RefError('envelope: ' + notes[0])
    meta = {'originating_centre': 98, 'originating_subcentre': 1, 'data_category': 7, 'data_local_subcategory': 9,
            'update_sequence_number': 2, 'year': 2021, 'month': 12, 'day': 30, 'hour': 23, 'minute': 59, 'second': 58}
    spec = message.Spec(edition=4, meta=meta, descs=descs, nsub=nsub, compressed=comp)
    b, info = message.build(spec, buf)
    return b, spec, subs, bufs


def snapshot(msg):
    td = msg.template_data.value
    return (copy.deepcopy(td.decoded_values_all_subsets),
            [[str(d) for d in ds] for ds in td.decoded_descriptors_all_subsets],
            copy.deepcopy([dict(x) for x in td.bitmap_links_all_subsets]),
            msg.serialized_bytes,
            [(sec.get_metadata('index'), [(p.name, copy.deepcopy(p.value)) for p in sec if p.name != 'template_data'])
             for sec in msg.sections])


IDENT_SKIP = ('length', 'section_length', 'n_subsets', 'template_data')


def identification(msg):
    return [(sec.get_metadata('index'), [(p.name, p.value) for p in sec if p.name not in IDENT_SKIP])
            for sec in msg.sections]


def judge(descs, nsub, comp, pattern, coll, want, queues=None, free=()):
    try:
        b, spec, subs, bufs = build_source(descs, nsub, comp, pattern, queues, free)
    except (codec.RefError, ValueError) as e:
        return {'skip': 'ref:' + str(e)[:60], 'outcome': ('skip',)}
    st = S.impl_decode(CC.decoder(), b, wire_template_data=False)
    if st[0] == 'exc':
        return {'skip': 'source-undecodable:' + st[1], 'outcome': ('skip',)}     # C01's subject
    if S.compare_subsets(st[1], subs):
        return {'skip': 'source-decode-differs', 'outcome': ('skip',)}           # C01's subject
    msg = st[2]
    before = snapshot(msg)
    res = {'outcome': (nsub, comp, pattern, len(coll), None if want is None else len(want), type(coll).__name__), 'bytes': b}
    try:
        data = msg.subset(coll)
        err = None
    except Exception as e:
        data, err = None, e
    if snapshot(msg) != before:
        res['viol'] = ('source-modified', 'subset(%r) changed the source message object' % (coll,))
        return res
    if want is None:
        if err is None:
            res['viol'] = ('out-of-range-accepted', 'subset(%r) of a %d-subset message was not refused' % (coll, nsub))
        else:
            res['outcome'] += (type(err).__name__,)
        return res
    if err is not None:
        res['viol'] = ('subset-raises:' + type(err).__name__, 'subset(%r) raised %r' % (coll, err))
        return res
    with contextlib.redirect_stderr(io.StringIO()):
        try:
            m2 = CC.encoder().process(data, wire_template_data=False)
        except Exception as e:
            res['viol'] = ('encode-raises:' + type(e).__name__, 'encoding subset(%r) raised %r' % (coll, e))
            return res
    if snapshot(msg) != before:
        res['viol'] = ('source-modified', 'encoding subset(%r) changed the source message object' % (coll,))
        return res
    got = m2.serialized_bytes
    st2 = S.impl_decode(CC.decoder(), got, wire_template_data=False)
    if st2[0] == 'exc':
        res['viol'] = ('result-undecodable:' + st2[1], 'the encoded subset(%r) does not decode: %s' % (coll, st2[2][:120]))
        return res
    exp = [subs[i] for i in want]
    if len(st2[1]) != len(want):
        res['viol'] = ('subset-count', 'subset(%r): %d subsets, expected %d distinct' % (coll, len(st2[1]), len(want)))
        return res
    d = S.compare_subsets(st2[1], exp)
    if d:
        res['viol'] = ('content-' + d[0], 'subset(%r): %s' % (coll, d[1]))
        return res
    m3 = st2[2]
    if m3.n_subsets.value != len(want):
        res['viol'] = ('n_subsets', 'n_subsets is %r, %d distinct indices' % (m3.n_subsets.value, len(want)))
        return res
    if identification(m3) != identification(msg):
        res['viol'] = ('identification', 'sections 0-3 / descriptors / compression flag changed by subset(%r)' % (coll,))
        return res
    spec2 = message.Spec(edition=4, meta=spec.meta, descs=descs, nsub=len(want), compressed=comp)
    if not comp:
        buf = BitBuf()
        for i in want:
            buf.extend(bufs[i])
        expb, _ = message.build(spec2, buf)
        if got != expb:
            res['viol'] = ('bytes', 'subset(%r) encodes to %s, expected %s' % (coll, got.hex(), expb.hex()))
    else:
        d = CC.judge_compressed(got, spec2, exp, descs)
        if d:
            res['viol'] = ('compressed-' + d[0], 'subset(%r): %s' % (coll, d[1]))
    return res


def body_for(item, env):
    name, descs, queues, free = item
    nsub, comp = env['nsub'], env['compressed']
    colls = collections_for(nsub, env.get('maxlen', 3))

    def body(ctx):
        pattern = ctx.pick('pattern', NPAT, 'S')
        coll, want = colls[ctx.pick('collection', len(colls), 'S')]
        return judge(descs, nsub, comp, pattern, coll, want, queues, free)
    return body


def run_shard(args):
    items, env = args
    p = Partial()
    st = tree.Stats()
    for item in items:
        body = body_for(item, env)

        def on_leaf(ctx, res, item=item):
            p.n['exec'] += 1
            if 'skip' in res:
                p.n['skipped'] += 1
                p.hist[res['skip'][:40]] += 1
                return
            p.outcome(res['outcome'])
            if 'viol' in res:
                sig, detail = res['viol']
                colls = collections_for(env['nsub'], env.get('maxlen', 3))
                coll, want = colls[ctx.choices[1]]
                cls = 'refuse' if want is None else ('repeats' if len(want) < len(coll) else
                                                     ('unordered' if list(coll) != want else 'plain'))
                p.violation('%s|%s|%s' % (sig, cls, 'comp' if env['compressed'] else 'uncomp'),
                            {'item': list(item), 'env': env, 'choices': ctx.vector()}, detail, observed=res.get('bytes'))
            elif p.n['exec'] % 3000 == 1:
                p.sample({'template': item[0], 'descs': item[1], 'env': env, 'choices': ctx.vector()})
        tree.explore(body, 0, on_leaf, st)
    p.n['nodes'] += st.nodes
    p.n['edges'] += st.edges
    return p


# ------------------------------------------------------------------------------------------
# several subset() calls on ONE decoded message object: every result must be what its own call alone gives, however many
# other selections were taken before or after it and whenever it is encoded
SEQ_MENU = [[0], [1], [2], [0, 1], [1, 2], [2, 0], [0, 1, 2], [1, 1], [3]]


def _encode_or_exc(data):
    with contextlib.redirect_stderr(io.StringIO()):
        try:
            return CC.encoder().process(data, wire_template_data=False).serialized_bytes
        except Exception as e:
            return 'EXC ' + type(e).__name__


def run_sequences(args):
    items, comp, maxlen = args
    p = Partial()
    for name, descs in items:
        try:
            b, spec, subs, bufs = build_source(descs, 3, comp, 0)
        except (codec.RefError, ValueError):
            p.n['skipped'] += 1
            continue
        ref = []
        for c in SEQ_MENU:
            m = CC.decoder().process(b, wire_template_data=False)
            try:
                ref.append(_encode_or_exc(m.subset(c)))
            except Exception as e:
                ref.append('REFUSED')
        p.n['nodes'] += 1
        for L in range(2, maxlen + 1):
            for seq in itertools.product(range(len(SEQ_MENU)), repeat=L):
                for order in ('forward', 'reverse'):
                    m = CC.decoder().process(b, wire_template_data=False)
                    before = snapshot(m)
                    results = []
                    for k in seq:
                        try:
                            results.append(m.subset(SEQ_MENU[k]))
                        except Exception:
                            results.append(None)
                    idx = list(range(L)) if order == 'forward' else list(reversed(range(L)))
                    p.n['exec'] += 1
                    p.n['edges'] += L
                    p.outcome((L, order, comp, sum(r is None for r in results)))
                    for j in idx:
                        got = 'REFUSED' if results[j] is None else _encode_or_exc(results[j])
                        if got != ref[seq[j]]:
                            p.violation('call-sequence|%s|%s' % (order, 'comp' if comp else 'uncomp'),
                                        {'descs': descs, 'compressed': comp, 'sequence': [SEQ_MENU[k] for k in seq], 'order': order,
                                         'name': name},
                                        'subset(%r), taken as call %d of the calls %r on one message object and encoded %s, gives '
                                        '%s; that call alone gives %s' % (SEQ_MENU[seq[j]], j, [SEQ_MENU[k] for k in seq],
                                                                         'after all calls' if order == 'forward' else 'in reverse order',
                                                                         got if isinstance(got, str) else got.hex(),
                                                                         ref[seq[j]] if isinstance(ref[seq[j]], str) else ref[seq[j]].hex()))
                            break
                    if snapshot(m) != before:
                        p.violation('call-sequence|source-modified', {'descs': descs, 'compressed': comp,
                                                                      'sequence': [SEQ_MENU[k] for k in seq], 'order': order, 'name': name},
                                    'the source message changed')
    return p


# ------------------------------------------------------------------------------------------
# messages with many subsets: every pair (and, for 10 subsets, every triple) of indices, given as list / tuple / set /
# frozenset / range -- the order and the container the caller uses must not matter, only the set of indices
MANY_TEMPLATES = [('plain', [1001, 5002]), ('char-delayed', [10, 101000, 31001, 1001]), ('fixed-repl', [102002, 1001, 2001])]


def many_collections(n, triples):
    out = []
    k = 0
    for i in range(n):
        for j in range(n):
            if i == j:
                continue
            if n > 12 and i > j:
                continue
            k += 1
            c = [i, j] if k % 2 else [j, i]
            typ = (list, tuple, set, frozenset)[k % 4]
            out.append((typ(c), sorted({i, j})))
    if triples:
        for t in itertools.product(range(n), repeat=3):
            if len(set(t)) >= 2 and list(t) != sorted(t):
                out.append((list(t), sorted(set(t))))
    for a, b, c in ((0, n, 1), (1, n, 2), (n - 1, -1, -3), (n - 3, n, 1), (0, n, 7), (8, n, 1), (7, 9, 1)):
        r = range(a, b, c)
        if len(r):
            out.append((r, sorted(r)))
            out.append((list(reversed(r)), sorted(r)))
    out.append(([n - 1, n], None))
    out.append(({0, n}, None))
    out.append(((n - 1, -1), None))
    return out


def run_many(args):
    name, descs, nsub, comp, pattern, lo, hi = args
    p = Partial()
    colls = many_collections(nsub, nsub <= 12)
    for coll, want in colls[lo:hi]:
        res = judge(descs, nsub, comp, pattern, coll, want)
        p.n['exec'] += 1
        if 'skip' in res:
            p.n['skipped'] += 1
            p.hist[res['skip'][:40]] += 1
            continue
        p.outcome(res['outcome'][:1] + res['outcome'][3:])
        if 'viol' in res:
            sig, detail = res['viol']
            cls = 'refuse' if want is None else ('unordered' if list(coll) != want else 'plain')
            p.violation('%s|many|%s|%s|%s' % (sig, cls, type(coll).__name__, 'comp' if comp else 'uncomp'),
                        {'name': name, 'descs': descs, 'nsub': nsub, 'compressed': comp, 'pattern': pattern,
                         'collection': sorted(coll) if isinstance(coll, (set, frozenset)) else list(coll),
                         'type': type(coll).__name__, 'range': [coll.start, coll.stop, coll.step] if isinstance(coll, range) else None,
                         'want': want}, detail, observed=res.get('bytes'))
    p.n['nodes'] += p.n['exec'] + 1
    p.n['edges'] += p.n['exec']
    return p


def _many_collection_of(case):
    if case['type'] == 'range':
        return range(*case['range'])
    return {'list': list, 'tuple': tuple, 'set': set, 'frozenset': frozenset}[case['type']](case['collection'])


SEQ_TEMPLATES = [('plain', [1001, 5002, 10]), ('fixed-repl', [102002, 1001, 2001, 5002]), ('delayed', [1001, 101000, 31001, 5002]),
                 ('operators', [201130, 5002, 201000, 204002, 31021, 1001, 204000]),
                 ('bitmap', [1001, 5002, 222000, 236000, 101002, 31031, 33007, 33007])]


def _same(new, old):
    """foreign compressed messages may carry character increments shorter than the field: the decoded value is then
    shorter than the field and is blank-padded to the field width when written again (C03: strings read back padded)"""
    if isinstance(new, bytes) and isinstance(old, bytes) and len(old) < len(new):
        return new == old + b' ' * (len(new) - len(old))
    return S.same_value(new, old)


def _allones_flags(td, i):
    """per value of source subset i: does the value coincide with an all-ones pattern of its field?  A compressed column
    can hold such a value (minimum + increment); once the subset is stored alone (or uncompressed) the same bits ARE the
    missing value -- the identification the statement makes.  The width in force is not known here (operators), so any
    width >= 2 counts; this only ever relaxes the comparison of such a value with None."""
    out = []
    for d, v in zip(td.decoded_descriptors_all_subsets[i], td.decoded_values_all_subsets[i]):
        flag = False
        if isinstance(v, (int, float)) and not isinstance(v, bool):
            try:
                raw = int(round(v * 10 ** getattr(d, 'scale', 0))) - getattr(d, 'refval', 0)
                flag = raw >= 3 and (raw + 1) & raw == 0
                if not flag and isinstance(v, int):
                    flag = v >= 3 and (v + 1) & v == 0
            except Exception:
                flag = False
        out.append(flag)
    return out


def run_corpus(msgs):
    p = Partial()
    dec, enc = CC.decoder(), CC.encoder()
    for name, k, m in msgs:
        st = S.impl_decode(dec, m, wire_template_data=False)
        if st[0] == 'exc':
            continue
        msg = st[2]
        n = msg.n_subsets.value
        if n < 2:
            continue
        with contextlib.redirect_stderr(io.StringIO()):
            try:
                enc.process(msg.subset(list(range(n))), wire_template_data=False)
            except Exception:
                p.n['not_reencodable'] += 1      # table version not bundled: the encoder has no fall-back (C02 note)
                continue
        before = snapshot(msg)
        colls = [[0], [n - 1], [0, n - 1], list(range(n)), list(reversed(range(n))), [1, 1], (n - 1, 0, 0), [n], [-1]]
        for coll in colls:
            p.n['exec'] += 1
            case = {'file': name, 'index': k, 'collection': list(coll)}
            want = sorted(set(coll)) if all(0 <= i < n for i in coll) else None
            try:
                data = msg.subset(coll)
            except Exception as e:
                if want is not None:
                    p.violation('corpus-subset-raises:' + type(e).__name__, case, repr(e))
                p.outcome(('refused', type(e).__name__))
                continue
            if want is None:
                p.violation('corpus-out-of-range-accepted', case, 'subset(%r) of %d subsets accepted' % (coll, n))
                continue
            with contextlib.redirect_stderr(io.StringIO()):
                try:
                    m2 = enc.process(data, wire_template_data=False)
                    st2 = S.impl_decode(dec, m2.serialized_bytes, wire_template_data=False)
                except Exception as e:
                    p.violation('corpus-encode-raises:' + type(e).__name__ + ('|repeats' if len(want) < len(coll) else ''),
                                case, repr(e))
                    continue
            if st2[0] == 'exc':
                p.violation('corpus-result-undecodable', case, st2[2][:160])
                continue
            src = [st[1][i] for i in want]
            flags = [_allones_flags(msg.template_data.value, i) for i in want]
            ok = len(st2[1]) == len(src) and all(
                a[0] == b[0] and len(a[1]) == len(b[1]) and a[2] == b[2] and
                all(_same(x, y) or (x is None and fl) for x, y, fl in zip(a[1], b[1], f))
                for a, b, f in zip(st2[1], src, flags))
            p.outcome((msg.is_compressed.value, len(want), len(coll)))
            if not ok:
                p.violation('corpus-content' + ('|repeats' if len(want) < len(coll) else ''), case,
                            'subset(%r) does not hold the selected subsets' % (coll,))
            elif identification(st2[2]) != identification(msg):
                p.violation('corpus-identification', case, 'metadata changed')
            if snapshot(msg) != before:
                p.violation('corpus-source-modified', case, 'source message changed')
                break
    return p


# ------------------------------------------------------------------------------------------
def run_cli_part(_):
    """command line: pybufrkit subset I in out, on a few messages and collections"""
    from mc.engine.cli import run_cli
    p = Partial()
    scratch = os.environ.get('VERIF_SCRATCH') or '/dev/shm'
    fin, fout = os.path.join(scratch, 'c10_in.bufr'), os.path.join(scratch, 'c10_out.bufr')
    for descs, nsub, comp in (([1001, 5002, 102002, 2001, 10], 3, False), ([1001, 5002, 10], 3, True),
                              ([101000, 31001, 5002, 1001], 3, False)):
        b, spec, subs, bufs = build_source(descs, nsub, comp, 0)
        with open(fin, 'wb') as f:
            f.write(b)
        for text, want in (('0', [0]), ('2,0', [0, 2]), ('1,1', [1]), ('0,1,2', [0, 1, 2]), ('3', None), ('-1', None)):
            p.n['exec'] += 1
            if os.path.exists(fout):
                os.remove(fout)
            argv = ['subset', text, fin, fout]
            if text.startswith('-'):
                argv = ['subset', '--', text, fin, fout]
            out, err, exc, code = run_cli(argv)
            case = {'descs': descs, 'nsub': nsub, 'compressed': comp, 'indices': text}
            p.outcome((comp, text, want is None, os.path.exists(fout)))
            if exc is not None:
                p.violation('cli-traceback:' + type(exc).__name__ + ('|repeats' if text == '1,1' else ''), case, repr(exc))
                continue
            if want is None:
                if os.path.exists(fout):
                    p.violation('cli-out-of-range-accepted', case, 'output written for %s' % text)
                continue
            if not os.path.exists(fout):
                p.violation('cli-no-output', case, 'stderr: %s' % err[-200:])
                continue
            st = S.impl_decode(CC.decoder(), open(fout, 'rb').read(), wire_template_data=False)
            if st[0] == 'exc':
                p.violation('cli-result-undecodable', case, st[2][:160])
                continue
            d = S.compare_subsets(st[1], [subs[i] for i in want]) if len(st[1]) == len(want) else ('count', 'subset count')
            if d:
                p.violation('cli-content-' + d[0], case, d[1])
    for f in (fin, fout):
        if os.path.exists(f):
            os.remove(f)
    return p


def replay(part, case):
    if part == 'corpus':
        from mc.gen.corpus import TESTS, scan
        m = scan(open(os.path.join(TESTS, case['file']), 'rb').read())[case['index']]
        p = run_corpus([(case['file'], case['index'], m)])
        return [{'sig': v['sig'], 'detail': v['detail']} for v in p.viol if v['case']['collection'] == case['collection']]
    if part == 'cli':
        p = run_cli_part(None)
        return [{'sig': v['sig'], 'detail': v['detail']} for v in p.viol
                if v['case']['indices'] == case['indices'] and v['case']['descs'] == case['descs']]
    if part.startswith('many-subsets'):
        coll = _many_collection_of(case)
        res = judge(case['descs'], case['nsub'], case['compressed'], case['pattern'], coll, case['want'])
        if 'viol' not in res:
            return []
        cls = 'refuse' if case['want'] is None else ('unordered' if list(coll) != case['want'] else 'plain')
        return [{'sig': '%s|many|%s|%s|%s' % (res['viol'][0], cls, case['type'], 'comp' if case['compressed'] else 'uncomp'),
                 'detail': res['viol'][1]}]
    if part.startswith('call-sequences'):
        p = run_sequences(([(case['name'], case['descs'])], case['compressed'], len(case['sequence'])))
        return [{'sig': v['sig'], 'detail': v['detail']} for v in p.viol
                if v['case']['sequence'] == case['sequence'] and v['case']['order'] == case['order']]
    it = case['item']
    queues = [[tuple(x) for x in q] for q in it[2]] if it[2] is not None else None
    body = body_for((it[0], it[1], queues, it[3]), case['env'])
    ctx, res = tree.replay(body, case['choices'])
    return [{'sig': res['viol'][0], 'detail': res['viol'][1]}] if 'viol' in res else []


def item_pool(tier):
    if tier == 'quick':
        items = [(n, d, None, ()) for n, d in CC.template_pool(tier, k=1, c=1) if len(d) <= 4]
    else:
        items = [(n, d, None, ()) for n, d in CC.template_pool(tier, k=1, c=1, nested=True, small_sigma=False)]
    bm = [s for s in BM.chain1(0) if s[0].split('|')[0] in ('b2', 'bD1')]
    items += [(n, d, q, f) for n, d, q, f in (bm if tier == 'thorough' else bm[::7])]
    return items


def main(tier, seed):
    rep = Report(PID, tier, seed)
    rep.rule = ('message = template x subset count x compression x value pattern (4), collection = every sequence over '
                '0..n-1 of length <= 3 + full range + reverse (lists; tuples for the unordered/repeating ones) + 7 '
                'out-of-range collections; all S-choices, no deviation budget; outcome class = (n, compressed, pattern, '
                'collection length, distinct indices, collection type); many-subsets parts: messages of 9..70 subsets x every pair of '
                'indices x container types')
    rep.trusted_base = ['mc.ref.codec / mc.ref.message: the content of every source subset and the expected result message '
                        'are built by the reference model']
    rep.assumptions = ['corpus part: a source value that coincides with an all-ones pattern (possible in a compressed column as '
                       'minimum + increment) may read back as missing after subsetting -- the identification the statement makes',
                       'empty collections are outside the quantifier', 'refusal may be any exception raised by subset()',
                       'source messages the implementation does not decode as the reference expects are skipped here '
                       '(counted; they are C01 violations)']
    items = item_pool(tier)
    envs = [dict(nsub=n, compressed=c) for n in ((1, 2, 3) if tier == 'quick' else (1, 2, 3, 4)) for c in (False, True)]
    if tier == 'thorough':
        envs.append(dict(nsub=4, compressed=False, maxlen=4))
    for env in envs:
        its = items
        if tier == 'quick' and env['nsub'] == 3:
            its = [x for i, x in enumerate(items) if len(x[1]) <= 3 or i % 4 == seed % 4]
        if env.get('maxlen'):
            its = items[:60]
        shards = split(its, 64)
        k = seed % len(shards)
        p = merge_all(run_shards(run_shard, [(s, env) for s in shards[k:] + shards[:k]]))
        rep.add_part('gen-n%d-%s%s' % (env['nsub'], 'c' if env['compressed'] else 'u', '-len4' if env.get('maxlen') else ''), p,
                     bounds=dict(env, templates=len(its), collections=len(collections_for(env['nsub'], env.get('maxlen', 3))),
                                 patterns=NPAT))
    for comp in (False, True):
        L = 2 if tier == 'quick' else 3
        p = merge_all(run_shards(run_sequences, [([t], comp, L) for t in SEQ_TEMPLATES]))
        rep.add_part('call-sequences-%s' % ('c' if comp else 'u'), p,
                     bounds={'templates': len(SEQ_TEMPLATES), 'subsets': 3, 'collections': SEQ_MENU, 'max_calls': L,
                             'encode_orders': ['forward (after all calls)', 'reverse'], 'compressed': comp})
    for nsub in ((10, 34) if tier == 'quick' else (9, 10, 17, 34, 70)):
        jobs = []
        ncoll = len(many_collections(nsub, nsub <= 12))
        for name, descs in MANY_TEMPLATES:
            for comp in (False, True):
                for pattern in ((0,) if tier == 'quick' else (0, 1)):
                    step = max(8, ncoll // 12)
                    jobs += [(name, descs, nsub, comp, pattern, lo, lo + step) for lo in range(0, ncoll, step)]
        p = merge_all(run_shards(run_many, jobs))
        rep.add_part('many-subsets-n%d' % nsub, p,
                     bounds={'subsets': nsub, 'templates': [n_ for n_, _ in MANY_TEMPLATES], 'collections': ncoll,
                             'collections_rule': 'every pair of distinct indices (both orders for n <= 12), for n <= 12 every '
                                                 'unsorted triple; list / tuple / set / frozenset by turns; ranges; 3 out of range',
                             'compressed': [False, True]})
    from mc.gen import corpus
    msgs = list(corpus.messages(max_bytes=6000 if tier == 'quick' else 60000))
    p = merge_all(run_shards(run_corpus, split(msgs, 64)))
    p.n['nodes'], p.n['edges'] = p.n['exec'] + 1, p.n['exec']
    rep.add_part('corpus', p, bounds={'messages': len(msgs)})
    p = run_cli_part(None)
    p.n['nodes'], p.n['edges'] = p.n['exec'] + 1, p.n['exec']
    rep.add_part('cli', p, bounds={'invocations': p.n['exec']})
    return rep.finish()
