"""
C07 -- bitmap-driven and associated attributes are linked to the element they qualify.

Structures (mc.gen.bitmaps): base x chain of operator constructs (222/223/224/225/232 x bitmap
source direct / delayed / defined-for-reuse / recalled x length N x ALL 2^N bit patterns x
follower form) with 235000 / 237255 / plain elements between constructs, uncompressed and
compressed, 1..2 subsets (uncompressed subsets with *different* bitmaps); the same structures inside an
outer replication that runs twice within a subset (each repetition closed by 235000).  Field values are
explored with the deviation bound (E1).  Per execution:
  - the reference model builds the message; its links (k-th value <-> k-th zero bit <-> N
    elements preceding the operator) are the expectation for bitmap_links_all_subsets;
  - labels/values (225255: width+1, reference -2^width) as in C01;
  - the nested JSON must show every linked value as a virtual attribute of exactly its owner
    (with its 008023/008024 meaning), every associated field as attribute of the element it
    precedes (with its 031021 meaning), and must hold every value exactly once;
  - the implementation's encoder given the same values reproduces the message bytes.
"""
from mc.checks import codec_common as CC
from mc.engine import tree
from mc.engine.harness import Partial, Report, merge_all
from mc.engine.pool import run_shards, split
from mc.gen import bitmaps as BM
from mc.gen import scenario as S
from mc.ref import codec, message, nested

PID = 'C07'


def meanings(sub):
    """{flat index of attribute -> (meaning label, value)} from the reference expectation"""
    out = {}
    m21 = m23 = m24 = None
    for i, (lab, (kind, desc, w)) in enumerate(zip(sub.labels, sub.meta)):
        if lab == '031021':
            m21 = ('031021', sub.values[i])
        elif lab == '008023':
            m23 = ('008023', sub.values[i])
        elif lab == '008024':
            m24 = ('008024', sub.values[i])
        elif lab[:1] == 'A' and m21:
            out[i] = m21
        elif lab[:1] == 'F' and m23:
            out[i] = m23
        elif lab[:1] == 'D' and m24:
            out[i] = m24
    return out


_CDEC = None


def compiled_decoder():
    global _CDEC
    if _CDEC is None:
        from pybufrkit.decoder import Decoder
        _CDEC = Decoder(compiled_template_cache_max=8)
    return _CDEC


def struct_body(struct, env):
    name, descs, queues, free = struct
    nsub, comp = env['nsub'], env['compressed']
    vmap = env.get('vmap') or [0] * nsub

    def body(ctx):
        from pybufrkit.renderer import NestedJsonRenderer
        try:
            if env.get('distinct'):
                # every field value differs from its neighbours and between subsets: an attribute hung on the wrong owner
                # cannot hide behind equal values
                b, spec, subs, notes = S.build_distinct_message(ctx, descs, nsub=nsub, compressed=comp, queues=queues,
                                                                free=free, variant_of_subset=vmap)
            else:
                b, spec, subs, notes = S.build_struct_message(ctx, descs, queues, free, nsub=nsub, compressed=comp,
                                                              variant_of_subset=vmap)
        except codec.RefError as e:
            return {'outcome': ('ref-error',), 'skip': 'ref:' + str(e)[:60]}
        if notes:
            return {'outcome': ('envelope',), 'skip': 'envelope:' + notes[0][:60]}
        res = {'outcome': (tuple(sorted(set(l[:1] for l in subs[0].labels))), len(subs[0].links), comp, nsub),
               'bytes': b}
        st = S.impl_decode(CC.decoder(), b)
        if st[0] == 'exc':
            res['viol'] = ('decode-raises:' + st[1], 'decoding raised %s: %s' % (st[1], st[2][:200]))
            return res
        d = S.compare_subsets(st[1], subs)
        if d:
            res['viol'] = d
            return res
        if env.get('compiled'):
            # the same links with template compilation (first decode compiles, second runs the cached template)
            for rnd in (0, 1):
                sc = S.impl_decode(compiled_decoder(), b)
                dc = ('decode-raises:' + sc[1], 'raised %s: %s' % (sc[1], sc[2][:160])) if sc[0] == 'exc' else \
                    S.compare_subsets(sc[1], subs)
                if dc:
                    res['viol'] = ('compiled-' + dc[0], 'with template compilation (%s run): %s' % ('first' if rnd == 0 else 'cached', dc[1]))
                    return res
        msg = st[2]
        try:
            nj = NestedJsonRenderer().render(msg)
        except Exception as e:
            res['viol'] = ('nested-render-raises:' + type(e).__name__, repr(e)[:200])
            return res
        td = [p for sec in nj for p in sec if p['name'] == 'template_data'][0]['value']
        for si, sub in enumerate(subs):
            e = nested.conservation(td[si], sub.labels, sub.values)
            if e:
                res['viol'] = ('nested-conservation', 'subset %d: %s' % (si, e))
                return res
            e = nested.ownership(td[si], sub.labels, sub.values, sub.links, meanings(sub))
            if e:
                res['viol'] = ('nested-ownership', 'subset %d: %s' % (si, e))
                return res
        # encoder direction
        port = codec.encode.last_port
        try:
            m2 = CC.encoder().process(message.flat_json(spec, CC.impl_input_values(subs, port, comp)),
                                      wire_template_data=True)
        except Exception as e:
            res['viol'] = ('encode-raises:' + type(e).__name__, repr(e)[:200])
            return res
        if not comp and m2.serialized_bytes != b:
            res['viol'] = ('encode-bytes', 'encoder output differs from the reference message')
            return res
        if comp:
            d = CC.judge_compressed(m2.serialized_bytes, spec, subs, descs)
            if d:
                res['viol'] = ('encode-' + d[0], d[1])
                return res
        td2 = m2.template_data.value
        for si, sub in enumerate(subs):
            if dict(td2.bitmap_links_all_subsets[si]) != sub.links:
                res['viol'] = ('encode-links', 'subset %d: encoder links %r, expected %r'
                               % (si, dict(td2.bitmap_links_all_subsets[si]), sub.links))
                return res
        return res
    return body


def run_structs(args):
    structs, env, bound = args
    p = Partial()
    st = tree.Stats()
    for struct in structs:
        body = struct_body(struct, env)

        def on_leaf(ctx, res, struct=struct):
            p.n['exec'] += 1
            if 'skip' in res:
                p.n['envelope_skipped'] += 1
                p.hist[res['skip'][:50]] += 1
                return
            p.outcome(res['outcome'])
            if 'viol' in res:
                sig, detail = res['viol']
                parts = struct[0].split('|')
                cls = '|'.join(x.split('.')[0] + '.' + x.split('.')[1] if '.' in x else x for x in parts[1:])
                p.violation('%s|%s|%s' % (sig, parts[0], cls),
                            {'struct': [struct[0], struct[1], struct[2], struct[3]], 'env': env,
                             'choices': ctx.vector()}, detail, observed=res.get('bytes'))
            elif p.n['exec'] % 2000 == 1:
                p.sample({'structure': struct[0], 'descs': struct[1], 'env': env, 'message': res.get('bytes')})
        tree.explore(body, bound, on_leaf, st)
    p.n['nodes'] += st.nodes
    p.n['edges'] += st.edges
    return p


def replay(part, case):
    s = case['struct']
    queues = [[tuple(x) for x in q] for q in s[2]]
    body = struct_body((s[0], s[1], queues, s[3]), case['env'])
    ctx, res = tree.replay(body, case['choices'])
    return [{'sig': res['viol'][0], 'detail': res['viol'][1]}] if 'viol' in res else []


def plan(tier):
    """(part, structure generator, env, deviation bound)"""
    L = 0 if tier == 'quick' else 1
    out = [
        ('chain1-u1', list(BM.chain1(L + 1)), dict(nsub=1, compressed=False), 1),
        ('chain1-c2', list(BM.chain1(L + 1)), dict(nsub=2, compressed=True), 1 if tier == 'thorough' else 0),
        ('chain1-u2-diff', list(BM.chain1(L, 2)), dict(nsub=2, compressed=False, vmap=[0, 1]), 0),
        ('chain2-u1', list(BM.chain2(L)), dict(nsub=1, compressed=False), 0),
        ('chain2-c2', list(BM.chain2(L)), dict(nsub=2, compressed=True), 0),
    ]
    out.append(('chain1-u1-distinct', list(BM.chain1(L + 1)), dict(nsub=1, compressed=False, distinct=True, compiled=True), 0))
    out.append(('chain1-u2-diff-distinct', list(BM.chain1(1, 2)), dict(nsub=2, compressed=False, vmap=[0, 1], distinct=True), 0))
    out.append(('chain2-c2-distinct', list(BM.chain2(L)), dict(nsub=2, compressed=True, distinct=True), 0))
    w = list(BM.wrapped(BM.chain1(L), 2, True)) + list(BM.wrapped(BM.chain1(0), 2, True, delayed=True))
    out.append(('wrapped-u1', w, dict(nsub=1, compressed=False, distinct=True, compiled=True), 0))
    out.append(('wrapped-c2', w if tier == 'thorough' else w[::3], dict(nsub=2, compressed=True, compiled=True), 0))
    # class-33 elements as ordinary members after a finished quality-information / marker block
    t33 = list(BM.trailing_class33(L)) + list(BM.trailing_class33_after_chain(L))
    out.append(('trailing-class33-u1', t33, dict(nsub=1, compressed=False, distinct=True, compiled=True), 0))
    out.append(('trailing-class33-c2', t33, dict(nsub=2, compressed=True, distinct=True), 0))
    if tier == 'thorough':
        out.append(('chain1-all-u1', list(BM.chain1(2)), dict(nsub=1, compressed=False), 2))
        out.append(('chain1-u3-diff', list(BM.chain1(0, 3)), dict(nsub=3, compressed=False, vmap=[0, 1, 2]), 0))
    return out


def main(tier, seed):
    rep = Report(PID, tier, seed)
    rep.rule = ('every structure (base x operator chain x bitmap source x length x every bit pattern x follower form x '
                'separator) x every choice vector of field values within the deviation bound; an outcome class is '
                '(label prefixes present, number of links, compression, subsets)')
    rep.trusted_base = ['mc.ref.codec link computation (A.4), mc.ref.nested ownership/conservation rules (A.6)']
    rep.assumptions = ['201/202/207/203 are not in force at bitmapped elements or markers; 204 is cancelled before '
                       'the first bitmap operator (associated fields on markers are ambiguous in FM-94)',
                       '237000 is only generated while a 236000-defined bitmap is kept']
    for name, structs, env, bound in plan(tier):
        shards = split(structs, 64)
        k = seed % len(shards)
        p = merge_all(run_shards(run_structs, [(s, env, bound) for s in shards[k:] + shards[:k]]))
        rep.add_part(name, p, bounds=dict(structures=len(structs), deviations=bound, **env))
    return rep.finish()
