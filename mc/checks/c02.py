"""
C02 -- encoding produces the canonical FM-94 bit stream for the given values.

The same generated spaces as C01, reversed: the reference model R produces the expected
message (uncompressed: byte equality) or reads the implementation's compressed data and
judges it by the statement (base = minimum, width 0 iff all equal, all-ones increment iff
missing, exact reconstruction) and the framing by rebuilding the message around the data.
Character values are handed to the encoder as the user would (short, long, None).
Parts: tree-* (E1 over G), opmodel (E2 register model), tableB (every element definition,
operand sweeps), fxy (F/X/Y packing sweep), corpus (re-encode decoded corpus values).
"""
from mc.checks import c01
from mc.checks import codec_common as CC
from mc.engine import tree
from mc.engine.harness import Partial, Report, merge_all
from mc.engine.pool import run_shards, split
from mc.gen import corpus
from mc.gen import scenario as S
from mc.ref import codec, message, tables

PID = 'C02'


def sweep_case(case):
    version, local, descs, raws, nsub, compressed = case
    B, D = tables.load(version, tuple(local) if local else None)
    it = iter(raws)

    def chooser(info):
        r = next(it)
        return [r] * nsub if compressed else r
    try:
        buf, subs, notes, nb = codec.encode(B, D, descs, nsub, compressed, chooser)
    except (codec.RefError, ValueError):
        return ('ref-error',), None
    if notes:
        return ('envelope',), None
    port = codec.encode.last_port
    meta = {'master_table_version': version}
    if local:
        meta.update({'originating_centre': local[0], 'originating_subcentre': local[1], 'local_table_version': local[2]})
    spec = message.Spec(edition=4, meta=meta, descs=descs, nsub=nsub, compressed=compressed)
    b, info = message.build(spec, buf)
    # numeric values wider than 52 bits with a scale cannot be given exactly as floats: not in the quantifier
    for sub in subs:
        for (kind, d, w), v in zip(sub.meta, sub.values):
            if isinstance(v, float) and w > 50:
                return ('envelope',), None
    fj = message.flat_json(spec, CC.impl_input_values(subs, port, compressed))
    try:
        msg = CC.encoder().process(fj, wire_template_data=False)
    except Exception as e:
        return ('exc', type(e).__name__), ('encode-raises:' + type(e).__name__, 'encoding raised %r' % e)
    if msg.serialized_bytes != b:
        return ('diff',), ('bytes', 'encoded %s, independently built %s' % (msg.serialized_bytes.hex(), b.hex()))
    return (tuple(m[0] for m in subs[0].meta), tuple(v is None for v in subs[0].values), compressed), None


def run_sweep(cases):
    p = Partial()
    for case in cases:
        outcome, d = sweep_case(case)
        p.n['exec'] += 1
        if outcome[0] in ('ref-error', 'envelope'):
            p.n['envelope_skipped'] += 1
            continue
        p.outcome(outcome)
        if d:
            B, D = tables.load(case[0], tuple(case[1]) if case[1] else None)
            units = sorted({B[x][1] for x in case[2] if x in B})
            p.violation('%s|sweep|%s' % (d[0], ','.join(units)), case, d[1])
    return p


def fxy_case(descs):
    """section 3 packing of arbitrary descriptor ids: 0 subsets so that no table lookup of data happens"""
    spec = message.Spec(edition=4, descs=descs, nsub=0, compressed=False)
    b, info = message.build(spec, b'')
    fj = message.flat_json(spec, [])
    try:
        msg = CC.encoder().process(fj, wire_template_data=False)
    except Exception as e:
        return ('encode-raises:' + type(e).__name__, 'encoding raised %r' % e)
    if msg.serialized_bytes != b:
        return ('fxy-bytes', 'encoded %s, expected %s' % (msg.serialized_bytes.hex(), b.hex()))
    return None


def fxy_cases():
    out = []
    for f in (0, 3):
        for x in range(64):
            for y in (0, 1, 127, 128, 255):
                out.append([f * 100000 + x * 1000 + y])
    for y in (0, 1, 127, 128, 255):
        for op in (201, 202, 205, 206, 207, 208, 221, 222, 235, 236, 237):
            out.append([op * 1000 + y])
    return out


def run_fxy(cases):
    p = Partial()
    for descs in cases:
        p.n['exec'] += 1
        d = fxy_case(descs)
        p.outcome((descs[0] // 100000, descs[0] % 1000 >= 128, (descs[0] // 1000) % 100 >= 32))
        if d:
            p.violation(d[0], descs, d[1])
    return p


def bitmap_encode_body(struct, env):
    """bitmap structures (mc.gen.bitmaps): the encoder is given the reference values -- per-subset bitmaps and counts when
    uncompressed -- and must produce the independently built message (markers take width / scale / reference of the
    element the subset's OWN bitmap designates)"""
    name, descs, queues, free = struct
    nsub, comp = env['nsub'], env['compressed']
    vmap = env.get('vmap') or [0] * nsub

    def body(ctx):
        try:
            b, spec, subs, notes = S.build_distinct_message(ctx, descs, nsub=nsub, compressed=comp, queues=queues, free=free,
                                                            variant_of_subset=vmap)
        except codec.RefError as e:
            return {'outcome': ('ref-error',), 'skip': 'ref'}
        if notes:
            return {'outcome': ('envelope',), 'skip': 'envelope'}
        port = codec.encode.last_port
        fj = message.flat_json(spec, CC.impl_input_values(subs, port, comp))
        import contextlib, io
        with contextlib.redirect_stderr(io.StringIO()):
            try:
                msg = CC.encoder().process(fj, wire_template_data=False)
            except Exception as e:
                return {'outcome': ('exc', type(e).__name__), 'bytes': b,
                        'viol': ('encode-raises:' + type(e).__name__, 'encoding raised %s: %s' % (type(e).__name__, str(e)[:200]))}
        got = msg.serialized_bytes
        res = {'outcome': (name.split('|')[0], len(subs[0].links), comp, nsub), 'bytes': b}
        if not comp:
            if got != b:
                res['viol'] = ('bytes', 'encoded %s, independently built %s' % (got.hex(), b.hex()))
        else:
            d = CC.judge_compressed(got, spec, subs, descs)
            if d:
                res['viol'] = d
        return res
    return body


def run_bitmap_encode(args):
    structs, env = args
    p = Partial()
    st = tree.Stats()
    for struct in structs:
        def on_leaf(ctx, res, struct=struct):
            p.n['exec'] += 1
            if 'skip' in res:
                p.n['envelope_skipped'] += 1
                return
            p.outcome(res['outcome'])
            if 'viol' in res:
                parts = struct[0].split('|')
                p.violation('%s|bitmap|%s' % (res['viol'][0], '|'.join(x.split('.')[0] for x in parts[1:] if x)),
                            {'struct': list(struct), 'env': env, 'choices': ctx.vector()}, res['viol'][1], observed=res.get('bytes'))
        tree.explore(bitmap_encode_body(struct, env), 0, on_leaf, st)
    p.n['nodes'] += st.nodes
    p.n['edges'] += st.edges
    return p


def run_corpus(msgs):
    """decode with the implementation, re-encode, compare with R.build around the same data for uncompressed
    messages that R's writer reproduces; for all: R's reader must read the re-encoded bytes as the same values"""
    from mc.ref.compare import same_value
    p = Partial()
    for name, k, m in msgs:
        p.n['exec'] += 1
        st = S.impl_decode(CC.decoder(), m, wire_template_data=False)
        if st[0] == 'exc':
            p.n['undecodable'] += 1
            continue
        msg = st[2]
        # the encoder does not fall back to default tables (by design); messages whose exact table version is
        # not bundled can be decoded but not re-encoded: outside this part
        key = msg.table_group_key
        want = (str(msg.master_table_number.value), '0_0', str(msg.master_table_version.value))
        lv = msg.local_table_version.value
        want_local = None if lv == 0 else (str(msg.master_table_number.value), '%d_%d' % (
            msg.originating_centre.value, msg.originating_subcentre.value), str(lv))
        if tuple(key.wmo_tables_sn) != want or (key.local_tables_sn and tuple(key.local_tables_sn)) != want_local:
            p.n['table_fallback_skipped'] += 1
            continue
        from pybufrkit.renderer import FlatJsonRenderer
        fj = FlatJsonRenderer().render(msg)
        try:
            m2 = CC.encoder().process(fj, wire_template_data=False).serialized_bytes
        except Exception as e:
            p.violation('corpus-encode-raises:' + type(e).__name__, {'file': name, 'index': k}, 'encoding raised %r' % e)
            continue
        pm = message.parse(m2)
        key = msg.table_group_key
        B, D = tables.load_sn(key.wmo_tables_sn, key.local_tables_sn)
        try:
            subs, notes, pos = codec.decode(B, D, pm.descs, pm.nsub, pm.compressed, pm.data)
        except Exception as e:
            p.violation('corpus-unreadable', {'file': name, 'index': k}, 'reference reader fails on re-encoded data: %r' % e)
            continue
        # character values read back blank-padded to the field width (C03); compare modulo that padding
        from mc.ref.bits import fit_bytes
        orig = []
        for (il, iv, ik), r in zip(st[1], subs):
            iv = [fit_bytes(a, len(b)) if isinstance(a, bytes) and isinstance(b, bytes) and len(a) < len(b) else a
                  for a, b in zip(iv, r.values)] if len(iv) == len(r.values) else iv
            orig.append((il, iv, ik))
        d = S.compare_subsets(orig, subs)
        p.outcome((tuple(pm.descs[:4]), pm.compressed))
        if d:
            p.violation('%s|corpus' % d[0], {'file': name, 'index': k}, 're-encoded message reads back differently: ' + d[1])
    return p


def run_large(cases):
    """the large structures of C01 in the encode direction (plain and compiled encoder)"""
    from mc.checks import c01
    import contextlib, io
    p = Partial()
    for case in cases:
        p.n['exec'] += 1
        try:
            b, spec, subs, notes = c01.large_build(case)
        except (codec.RefError, ValueError):
            p.n['envelope_skipped'] += 1
            continue
        if notes:
            p.n['envelope_skipped'] += 1
            continue
        port = codec.encode.last_port
        fj = message.flat_json(spec, CC.impl_input_values(subs, port, spec.compressed))
        for which in ('plain', 'compiled'):
            with contextlib.redirect_stderr(io.StringIO()):
                try:
                    enc = CC.encoder() if which == 'plain' else CC.compiled_encoder()
                    got = enc.process(fj, wire_template_data=False).serialized_bytes
                except Exception as e:
                    p.violation('large|encode-raises:%s|%s' % (type(e).__name__, case[0].split('-')[0]), {'case': list(case), 'encoder': which},
                                repr(e)[:200])
                    continue
            p.outcome((case[0].split('-')[0], which, spec.compressed))
            if not spec.compressed:
                if got != b:
                    k = next((i for i, (x, y) in enumerate(zip(got, b)) if x != y), min(len(got), len(b)))
                    p.violation('large|bytes|%s' % case[0].split('-')[0], {'case': list(case), 'encoder': which},
                                '%d bytes, independently built %d; first difference at octet %d' % (len(got), len(b), k))
            else:
                d = CC.judge_compressed(got, spec, subs, list(case[1]))
                if d:
                    p.violation('large|%s|%s' % (d[0], case[0].split('-')[0]), {'case': list(case), 'encoder': which}, d[1])
    p.n['nodes'], p.n['edges'] = p.n['exec'] + 1, p.n['exec']
    return p


def run_under_operator(args):
    """bitmap structures with 201 / 202 / 207 / 208 / a 203 definition in force (or cancelled) at the markers: outside what the
    reference model judges, so differential -- the encoder with template compilation must write the bytes the plain one writes"""
    from mc.checks import c08
    import contextlib, io
    structs, env = args
    p = Partial()
    st = tree.Stats()
    for name, descs, queues, free in structs:
        def body(ctx, descs=descs, queues=queues, free=free):
            try:
                b, spec, subs, notes = S.build_distinct_message(ctx, descs, nsub=env['nsub'], compressed=env['compressed'],
                                                                queues=queues, free=free, variant_of_subset=[0] * env['nsub'])
            except (codec.RefError, ValueError):
                return {'skip': 1}
            port = codec.encode.last_port
            fj = message.flat_json(spec, CC.impl_input_values(subs, port, env['compressed']))
            outs = []
            for enc in (CC.encoder(), CC.compiled_encoder(), CC.compiled_encoder()):
                with contextlib.redirect_stderr(io.StringIO()):
                    try:
                        outs.append(enc.process(fj, wire_template_data=False).serialized_bytes)
                    except Exception as e:
                        outs.append('EXC ' + type(e).__name__)
            return {'outs': outs}
        def on_leaf(ctx, res, name=name, descs=descs, queues=queues, free=free):
            p.n['exec'] += 1
            if 'skip' in res:
                p.n['envelope_skipped'] += 1
                return
            o = res['outs']
            p.outcome((name.rsplit('+', 1)[1], isinstance(o[0], str), env['compressed']))
            if o[1] != o[0] or o[2] != o[0]:
                p.violation('compiled-encoder-differs|under-%s' % name.rsplit('+', 1)[1],
                            {'struct': [name, descs, queues, free], 'env': env, 'choices': ctx.vector()},
                            'plain encoder: %s; with template compilation: %s (first run), %s (cached)'
                            % tuple(x if isinstance(x, str) else x.hex()[-40:] for x in o))
        tree.explore(body, 0, on_leaf, st)
    p.n['nodes'] += st.nodes
    p.n['edges'] += st.edges
    return p


def run_dnp(cases):
    """C01's 221YYY spans over elements and pure state operators, in the encode direction"""
    from mc.checks import c01
    import contextlib, io
    p = Partial()
    for case in cases:
        for nsub, comp in ((1, False), (2, True)):
            p.n['exec'] += 1
            try:
                b, spec, subs, notes = c01.dnp_build(case, nsub, comp)
            except (codec.RefError, ValueError):
                p.n['envelope_skipped'] += 1
                continue
            if notes:
                p.n['envelope_skipped'] += 1
                continue
            port = codec.encode.last_port
            fj = message.flat_json(spec, CC.impl_input_values(subs, port, comp))
            with contextlib.redirect_stderr(io.StringIO()):
                try:
                    got = CC.encoder().process(fj, wire_template_data=False).serialized_bytes
                except Exception as e:
                    p.violation('dnp-span|encode-raises:' + type(e).__name__, {'case': [case[0], case[1]], 'nsub': nsub, 'compressed': comp},
                                '221%03d %s: %r' % (case[0], case[1], e))
                    continue
            p.outcome((case[0], len(case[1]), comp, len(subs[0].labels)))
            d = None
            if not comp:
                if got != b:
                    d = ('bytes', 'encoded %s, independently built %s' % (got.hex(), b.hex()))
            else:
                d = CC.judge_compressed(got, spec, subs, spec.descs)
            if d:
                p.violation('dnp-span|' + d[0], {'case': [case[0], case[1]], 'nsub': nsub, 'compressed': comp},
                            '221%03d %s: %s' % (case[0], case[1], d[1]))
    p.n['nodes'], p.n['edges'] = p.n['exec'] + 1, p.n['exec']
    return p


# ------------------------------------------------------------------------------------------
# ONE encoder object, the same descriptor list under table versions that define an element differently (master 13 / 33: 014001;
# local tables 98_0 versions 2 / 3: 005234, 008201): every order of <= 3 (4) encodes, each compared with the independently built
# message -- what the encoder built for one table version must not be used for another
ENC_HIST = [(13, None, [1001, 14001]), (33, None, [1001, 14001]), (13, (98, 0, 2), [1001, 5234, 8201]), (13, (98, 0, 3), [1001, 5234, 8201])]


def _enc_hist_message(k):
    version, local, descs = ENC_HIST[k]
    B, D = tables.load(version, local)
    buf, subs, notes, nb = codec.encode(B, D, descs, 1, False, lambda info: 3)
    meta = {'master_table_version': version}
    if local:
        meta.update({'originating_centre': local[0], 'originating_subcentre': local[1], 'local_table_version': local[2]})
    spec = message.Spec(edition=4, meta=meta, descs=descs, nsub=1, compressed=False)
    b, info = message.build(spec, buf)
    port = codec.encode.last_port
    return b, message.flat_json(spec, CC.impl_input_values(subs, port, False))


def run_encoder_histories(args):
    import contextlib, io, itertools
    from pybufrkit.encoder import Encoder
    firsts, length = args
    p = Partial()
    msgs = [_enc_hist_message(k) for k in range(len(ENC_HIST))]
    for first in firsts:
        for rest in itertools.product(range(len(ENC_HIST)), repeat=length - 1):
            h = (first,) + rest
            for cc in (None, 2):
                enc = Encoder(compiled_template_cache_max=cc) if cc else Encoder()
                p.n['exec'] += 1
                for step, k in enumerate(h):
                    with contextlib.redirect_stderr(io.StringIO()):
                        try:
                            got = enc.process(msgs[k][1], wire_template_data=False).serialized_bytes
                        except Exception as e:
                            got = 'EXC ' + type(e).__name__
                    p.n['encodes'] += 1
                    if got != msgs[k][0]:
                        p.violation('encoder-history|%s' % ('compiled' if cc else 'plain'), {'history': list(h[:step + 1]), 'compiled_cache': cc},
                                    'one encoder, messages %r: message %d (tables %r) encodes to %s, independently built %s'
                                    % ([ENC_HIST[x][:2] for x in h[:step + 1]], step, ENC_HIST[k][:2],
                                       got if isinstance(got, str) else got.hex()[-30:], msgs[k][0].hex()[-30:]))
                        break
                    p.outcome((k, cc))
    p.n['nodes'] += p.n['encodes'] + 1
    p.n['edges'] += p.n['encodes']
    return p


def replay(part, case):
    if part.startswith('tree'):
        return CC.replay_tree(case)
    if part == 'tableB':
        o, d = sweep_case(case)
        return [{'sig': d[0], 'detail': d[1]}] if d else []
    if part == 'encoder-histories':
        p = run_encoder_histories(([case['history'][0]], len(case['history'])))
        return [{'sig': v['sig'], 'detail': v['detail']} for v in p.viol
                if v['case']['history'] == case['history'] and v['case']['compiled_cache'] == case['compiled_cache']]
    if part.startswith('under-operator'):
        s_ = case['struct']
        p = run_under_operator(([(s_[0], s_[1], [[tuple(x) for x in q] for q in s_[2]], s_[3])], case['env']))
        return [{'sig': v['sig'], 'detail': v['detail']} for v in p.viol]
    if part == 'dnp-spans':
        p = run_dnp([(case['case'][0], case['case'][1])])
        return [{'sig': v['sig'], 'detail': v['detail']} for v in p.viol if v['case']['compressed'] == case['compressed']]
    if part == 'large':
        p = run_large([tuple(case['case'])])
        return [{'sig': v['sig'], 'detail': v['detail']} for v in p.viol if v['case']['encoder'] == case['encoder']]
    if part == 'fxy':
        d = fxy_case(case)
        return [{'sig': d[0], 'detail': d[1]}] if d else []
    if part == 'opmodel':
        from mc.checks import opmodel
        return opmodel.replay(case, 'encode')
    if part == 'corpus':
        from mc.gen.corpus import TESTS, scan
        import os
        m = scan(open(os.path.join(TESTS, case['file']), 'rb').read())[case['index']]
        p = run_corpus([(case['file'], case['index'], m)])
        return [{'sig': v['sig'], 'detail': v['detail']} for v in p.viol]
    if part.startswith('bitmap'):
        s_ = case['struct']
        body = bitmap_encode_body((s_[0], s_[1], [[tuple(x) for x in q] for q in s_[2]], s_[3]), case['env'])
        ctx, res = tree.replay(body, case['choices'])
        return [{'sig': '%s|bitmap|%s' % (res['viol'][0], '|'.join(x.split('.')[0] for x in s_[0].split('|')[1:] if x)),
                 'detail': res['viol'][1]}] if 'viol' in res else []
    raise ValueError(part)


def main(tier, seed):
    rep = Report(PID, tier, seed)
    rep.rule = ('as C01, reversed: every template of G(k,c) x every choice vector within the deviation bound is given '
                'to the real encoder; uncompressed output is compared byte for byte with an independently built message, '
                'compressed output is read by the reference reader and judged column by column')
    rep.trusted_base = ['mc.ref.codec / mc.ref.message (reference model R, see selftest)']
    rep.assumptions = ['envelope of DESIGN 2.4 (counted as envelope_skipped)',
                       'numeric values are given as the float nearest to (raw+ref)/10^scale; fields wider than 50 bits '
                       'with a non-zero scale are outside the quantifier (not exactly representable)']
    for name, pargs, env, bound in c01.tree_parts(tier):
        env = dict(env)
        env.pop('nbinc', None)
        pool = CC.template_pool(tier, **pargs)
        shards = split(pool, 64)
        k = seed % len(shards)
        shards = shards[k:] + shards[:k]
        p = merge_all(run_shards(CC.run_tree, [(s, env, bound, 'encode') for s in shards]))
        rep.add_part(name, p, bounds=dict(pargs, templates=len(pool), deviations=bound,
                                          **{k2: (v.hex() if isinstance(v, bytes) else v) for k2, v in env.items()}))
    from mc.gen import bitmaps as BM
    L = 0 if tier == 'quick' else 1
    for bname, structs, env in (('bitmap-u1', list(BM.chain1(L + 1)), dict(nsub=1, compressed=False)),
                                ('bitmap-u2-diff', list(BM.chain1(L, 2)), dict(nsub=2, compressed=False, vmap=[0, 1])),
                                ('bitmap-u3-diff', list(BM.chain1(0, 2)), dict(nsub=3, compressed=False, vmap=[1, 0, 1])),
                                ('bitmap-c2', list(BM.chain1(L)), dict(nsub=2, compressed=True)),
                                ('bitmap-chain2-u1', list(BM.chain2(L)), dict(nsub=1, compressed=False))):
        p = merge_all(run_shards(run_bitmap_encode, [(s_, env) for s_ in split(structs, 64)]))
        rep.add_part(bname, p, bounds=dict(structures=len(structs), **env))
    from mc.checks import opmodel
    p, info = opmodel.explore('encode', tier)
    rep.add_part('opmodel', p, bounds=info, rule='BFS to fixpoint over reference register states')

    cases, ndefs = c01.sweep_cases(tier)
    p = merge_all(run_shards(run_sweep, split(cases, 64)))
    p.n['nodes'], p.n['edges'] = len(cases) + 1, len(cases)
    p.sample(cases[0]); p.sample(cases[-1])
    rep.add_part('tableB', p, bounds={'distinct_definitions': ndefs, 'cases': len(cases)})

    cases = fxy_cases()
    p = merge_all(run_shards(run_fxy, split(cases, 16)))
    p.n['nodes'], p.n['edges'] = len(cases) + 1, len(cases)
    p.sample(cases[5])
    rep.add_part('fxy', p, bounds={'cases': len(cases)})
    hl = 3 if tier == 'quick' else 4
    p = merge_all(run_shards(run_encoder_histories, [([k_], hl) for k_ in range(len(ENC_HIST))]))
    rep.add_part('encoder-histories', p, bounds={'messages': [str(x[:2]) for x in ENC_HIST], 'length': hl, 'encoders': ['plain', 'compiled cache 2']},
                 rule='every order of encodes on one Encoder object of messages that share their descriptor list but name table versions '
                      'defining an element differently; each output compared with the independently built message')
    from mc.checks import c08 as _c08
    uo = [st for st in _c08.under_operator_structs(1 if tier == 'quick' else 2) if '+204' not in st[0]]
    for pname, env in (('under-operator-u1', dict(nsub=1, compressed=False)), ('under-operator-c2', dict(nsub=2, compressed=True))):
        p = merge_all(run_shards(run_under_operator, [(s_, env) for s_ in split(uo, 64)]))
        rep.add_part(pname, p, bounds=dict(structures=len(uo), **env),
                     rule='differential: plain encoder vs encoder with template compilation (first and cached run) on bitmap structures '
                          'with 201 / 202 / 207 / 208 / 203 in force or cancelled at the markers (204 at markers: known finding of C08)')
    from mc.checks import c01 as _c01
    dc = _c01.dnp_cases(tier)
    p = merge_all(run_shards(run_dnp, split(dc, 64)))
    rep.add_part('dnp-spans', p, bounds={'cases': len(dc), 'tokens': _c01.DNP_TOKENS},
                 rule='221YYY spans over elements and pure state operators (see C01), encoded')
    lc = _c01.large_cases(tier)
    p = merge_all(run_shards(run_large, [[c] for c in lc]))
    rep.add_part('large', p, bounds={'cases': [c[0] for c in lc]},
                 rule='the large structures of C01 (counts 127..1000, fixed 255, nested, deep nests, 100-bit bitmap, wide fields, '
                      '255..300 subsets) encoded by the plain and the compiled encoder')

    maxb = 3000 if tier == 'quick' else None
    msgs = list(corpus.messages(max_bytes=maxb))
    p = merge_all(run_shards(run_corpus, split(msgs, 64)))
    p.n['nodes'], p.n['edges'] = len(msgs) + 1, len(msgs)
    p.sample({'file': msgs[0][0], 'index': msgs[0][1]})
    rep.add_part('corpus', p, bounds={'messages': len(msgs), 'max_bytes': maxb})
    return rep.finish()
