"""
C18 -- script preprocessing substitutes exactly the embedded queries.

Parts:
  strings     ALL strings over { ' " # $ { } \\n a space backslash } up to length N: for the strings of the
              property's script language (terminated literals, terminated ${}) the output must be
              the input with every top-level ${e} replaced by an injective variable name keyed by
              strip(e), everything else byte-identical.  Others are counted as undefined_skipped
              (but must not raise).
  fragments   all sequences of <= K fragments from a menu of code / literals / comments / embeds.
  run         ScriptRunner: metadata_only <=> every expression starts with '%'; injected names;
              nesting levels 0/1/2/4 by argument, by pragma and both, over every (message, query)
              of a small pool; level relations L1 = concat(L2), L0 = first(L1) or None,
              L2 = per-subset flatten(L4), L4 = DataQuerent result.
  run-shapes  the scope in which a substituted / injected name is referenced (top level, function, lambda,
              generator expression, comprehension, class body, method, default argument, callback) x name x
              exec / eval mode, one ScriptRunner run on 1..3 messages in every order.
Oracle: mc.ref.scriptlang.
"""
from mc import REPO
import itertools
import os

from mc.engine.harness import Partial, Report, merge_all
from mc.engine.pool import run_shards
from mc.ref import scriptlang as R

PID = 'C18'
ALPHA = "'\"#${}\na \\"
FRAGS = ['# c\\\n', 'a\\\n', 'x=1', "'lit'", '"lit"', '"it\'s"', "'#'", '# c\n', "# it's\n", '${001001}', '${ 001001 }', '${%n_subsets}',
         '$', '$x', "'${q}'", '# ${q}\n', '\n', ' ', '{', '}', '"${a}#"', '${a"b}', "${#'}",
         '${0 01001}', '${% n_subsets}', '${%n_subsets }']        # inner whitespace: other expressions than the trimmed spellings above


def judge(proc, s):
    try:
        code, subs = proc(s)
    except Exception as e:
        return 'exc', ('preprocess-raises:' + type(e).__name__, '%r raised %s: %s' % (s, type(e).__name__, e))
    r = R.tokenise(s)
    if r is None:
        return 'undefined', None
    pieces, exprs = r
    if set(subs) != set(exprs):
        return 'bad', ('wrong-expression-set', '%r: expressions %r, expected %r' % (s, sorted(subs), exprs))
    names = list(subs.values())
    if len(set(names)) != len(names):
        return 'bad', ('names-not-injective', '%r: %r' % (s, subs))
    for nm in names:
        if not (isinstance(nm, str) and nm.isidentifier()):
            return 'bad', ('name-not-identifier', '%r: %r' % (s, subs))
    exp = ''.join(x if isinstance(x, str) else subs[exprs[x[1]]] for x in pieces)
    if exp != code:
        return 'bad', ('wrong-output', '%r -> %r, expected %r' % (s, code, exp))
    return 'ok:%d:%d' % (len(exprs), sum(1 for x in pieces if not isinstance(x, str))), None


def run_strings(args):
    prefixes, maxlen = args
    from pybufrkit.script import process_embedded_query_expr as proc
    p = Partial()
    for pre in prefixes:
        for n in range(0, maxlen - len(pre) + 1):
            if n and len(pre) < 2:
                continue
            for tup in itertools.product(ALPHA, repeat=n):
                s = pre + ''.join(tup)
                outcome, v = judge(proc, s)
                p.n['exec'] += 1
                p.hist[outcome.split(':')[0]] += 1
                p.outcome(outcome)
                if v:
                    p.violation(v[0], s, v[1])
    return p


def run_frag(args):
    firsts, K = args
    from pybufrkit.script import process_embedded_query_expr as proc
    p = Partial()
    for f0 in firsts:
        for n in range(0, K):
            for tup in itertools.product(range(len(FRAGS)), repeat=n):
                s = FRAGS[f0] + ''.join(FRAGS[i] for i in tup)
                outcome, v = judge(proc, s)
                p.n['exec'] += 1
                p.hist[outcome.split(':')[0]] += 1
                p.outcome(outcome)
                if v:
                    p.violation(v[0], {'frags': [f0] + list(tup), 's': s}, v[1])
    return p


# ---------------------------------------------------------------------------------------
POOL_FILES = ['data/contrived.bufr', 'data/207003.bufr', 'benchmark_data/g2to_206.bufr',
              'benchmark_data/sato_84.bufr', 'benchmark_data/ISND02_LLBD.bufr', 'benchmark_data/temp_102.bufr']


def flat(x):
    out = []
    for e in x:
        if isinstance(e, list):
            out.extend(flat(e))
        else:
            out.append(e)
    return out


def run_case(case):
    """case = {'file','script_kind',...}; returns (outcome, [violations])"""
    from pybufrkit.decoder import Decoder
    from pybufrkit.script import ScriptRunner
    from pybufrkit.dataquery import DataQuerent, NodePathParser
    from pybufrkit.mdquery import MetadataQuerent, MetadataExprParser
    viol = []
    kind = case['kind']
    if kind == 'shape':
        return run_shape(case)
    if kind == 'mdonly':
        # exprs: list of expressions placed at embed/quote/comment positions
        parts = []
        for where, e in case['items']:
            if where == 'embed':
                parts.append('v%d = ${%s}' % (len(parts), e))
            elif where == 'quote':
                parts.append("v%d = '${%s}'" % (len(parts), e))
            else:
                parts.append('v%d = 0 # ${%s}' % (len(parts), e))
        script = '\n'.join(parts) + '\n'
        sr = ScriptRunner(script)
        exp = all(e.strip().startswith('%') for w, e in case['items'] if w == 'embed')
        if sr.metadata_only != exp:
            viol.append({'sig': 'metadata-only-flag', 'detail': 'script %r: metadata_only=%r, expected %r'
                         % (script, sr.metadata_only, exp)})
        return 'mdonly:%s' % exp, viol

    if case.get('file') == '<generated>':
        s = generated_message(case['counts'], case['compressed'])
    else:
        s = open(os.path.join(REPO, 'tests', case['file']), 'rb').read()
    msg = Decoder().process(s, file_path='F.bufr')
    q = case['query']
    script = 'a = ${%s}\nb = PBK_FILENAME\nc = PBK_BUFR_MESSAGE\n' % q
    if case.get('pragma') is not None:
        # the magic comment "starts with #$" (documentation): with and without blanks around the name and the sign
        form = ['#$ data_values_nest_level = %d\n', '#$data_values_nest_level=%d\n', '#$   data_values_nest_level   =   %d   \n',
                '#$ data_values_nest_level = %d  # level of nesting\n'][case.get('pragma_form', 0)]
        script = form % case['pragma'] + script
    if case.get('first_comment'):
        # an ordinary comment that merely begins with the two characters of the magic comment
        script = case['first_comment'] + script
    try:
        sr = ScriptRunner(script, data_values_nest_level=case.get('arg'))
    except Exception as e:
        viol.append({'sig': 'runner-construction-raises:' + type(e).__name__, 'detail': 'ScriptRunner(%r) raised %r' % (script, e)})
        return 'bad', viol
    level = case['arg'] if case.get('arg') is not None else (case['pragma'] if case.get('pragma') is not None else 1)
    from pybufrkit.errors import QueryError
    try:
        variables = sr.run(msg)
    except QueryError:
        # the path designates a valueless node: the property defines no value; the direct query must agree
        try:
            DataQuerent(NodePathParser()).query(msg, q)
        except QueryError:
            return 'undefined-query', viol
        viol.append({'sig': 'script-raises-queryerror', 'detail': 'script raised QueryError for %r but the query works' % q})
        return 'bad', viol
    if variables.get('b') != 'F.bufr' or variables.get('c') is not msg:
        viol.append({'sig': 'injected-names', 'detail': 'PBK_FILENAME/PBK_BUFR_MESSAGE not bound to file name / message'})
    if q.lstrip().startswith('%'):
        exp = MetadataQuerent(MetadataExprParser()).query(msg, q)
        if variables['a'] != exp:
            viol.append({'sig': 'metadata-value', 'detail': '%s: %r != %r' % (q, variables['a'], exp)})
        if not sr.metadata_only:
            viol.append({'sig': 'metadata-only-flag', 'detail': 'script with only %r is not metadata_only' % q})
        return 'md', viol
    if sr.metadata_only:
        viol.append({'sig': 'metadata-only-flag', 'detail': 'script with data query %r is metadata_only' % q})
    l4 = DataQuerent(NodePathParser()).query(msg, q).all_values()
    l2 = [flat(x) for x in l4]
    l1 = flat(l2)
    l0 = l1[0] if l1 else None
    exp = {0: l0, 1: l1, 2: l2, 4: l4}[level]
    if variables['a'] != exp:
        viol.append({'sig': 'nest-level-%d' % level, 'detail': 'query %r level %d (arg %r pragma %r): %r, expected %r'
                     % (q, level, case.get('arg'), case.get('pragma'), str(variables['a'])[:200], str(exp)[:200])})
    return 'data:L%d:%s' % (level, 'nested' if l4 != l2 else 'flat'), viol


def generated_message(counts, compressed):
    """[001001, 1 02 000 031001 012001 002001, 005002] with the given replication count per subset (uncompressed) --
    subsets that yield nothing / something for a query on the replicated elements"""
    from mc.ref import codec, message, tables
    B, D = tables.load(33)
    descs = [1001, 102000, 31001, 12001, 2001, 5002]
    nsub = len(counts)
    cnt = [0]

    def ch(info):
        cnt[0] += 1
        s_ = info['subset'] if not compressed else 0
        if info.get('role') == 'factor':
            v = counts[s_]
        else:
            v = (7 * cnt[0]) % ((1 << info['width']) - 1)
        return [v] * nsub if compressed else v
    buf, subs, notes, nb = codec.encode(B, D, descs, nsub, compressed, ch)
    return message.build(message.Spec(descs=descs, nsub=nsub, compressed=compressed), buf)[0]


# ------------------------------------------------------------------------------------------
# where in the script a substituted / injected name is used: the binding must hold for the whole script, whatever scope
# the reference sits in; and one runner used for several messages must bind the names anew for each
SHAPES_EXEC = [
    ('top', 'r = X\n'),
    ('def', 'def f():\n    return X\nr = f()\n'),
    ('lambda', 'r = (lambda: X)()\n'),
    ('genexp', 'r = list(X for _ in (0,))[0]\n'),
    ('listcomp', 'r = [X for _ in (0,)][0]\n'),
    ('dictcomp', "r = {k: X for k in 'a'}['a']\n"),
    ('nested-def', 'def f():\n    def g():\n        return X\n    return g()\nr = f()\n'),
    ('class-body', 'class K:\n    v = X\nr = K.v\n'),
    ('method', 'class K:\n    def m(self):\n        return X\nr = K().m()\n'),
    ('default-arg', 'def f(v=X):\n    return v\nr = f()\n'),
    ('callback', 'import functools\nr = functools.reduce(lambda a, b: X, [0, 1])\n'),
    ('conditional', 'r = None\nif True:\n    for _ in (0,):\n        r = X\n'),
    ('def-after-use', 'r0 = X\ndef f():\n    return X\nr = f() if r0 == f() or True else None\n'),
    ('two-names', 'def f():\n    return (X, PBK_FILENAME)\nr = f()[0]\n'),
]
SHAPES_EVAL = [
    ('top', 'X'),
    ('lambda', '(lambda: X)()'),
    ('genexp', 'next(X for _ in (0,))'),
    ('listcomp', '[X for _ in (0,)][0]'),
    ('any', '[v for v in (X,) if any(True for _ in (X,))][0]'),
    ('filter', 'list(filter(lambda v: True, [X]))[0]'),
]
SHAPE_NAMES = ['${001001}', '${%n_subsets}', '${ /001001 }', 'PBK_FILENAME', 'PBK_BUFR_MESSAGE']


def run_shape(case):
    from pybufrkit.decoder import Decoder
    from pybufrkit.script import ScriptRunner
    from pybufrkit.dataquery import DataQuerent, NodePathParser
    viol = []
    mode, shape, name = case['mode'], case['shape'], case['name']
    text = dict(SHAPES_EXEC if mode == 'exec' else SHAPES_EVAL)[shape].replace('X', name)
    msgs = []
    for i, counts in enumerate(case['messages']):
        msgs.append(Decoder().process(generated_message(counts, False), file_path='F%d.bufr' % i))

    def want(i):
        m = msgs[i]
        if name == 'PBK_FILENAME':
            return 'F%d.bufr' % i
        if name == 'PBK_BUFR_MESSAGE':
            return m
        if '%' in name:
            return m.n_subsets.value
        return flat(DataQuerent(NodePathParser()).query(m, '/001001').all_values())
    try:
        sr = ScriptRunner(text, mode=mode)
    except Exception as e:
        return 'bad', [{'sig': 'shape-compile-raises:' + type(e).__name__, 'detail': '%r: %r' % (text, e)}]
    for step, i in enumerate(case['order']):
        try:
            res = sr.run(msgs[i])
            got = res.get('r', '<r unbound>') if mode == 'exec' else res
        except Exception as e:
            viol.append({'sig': 'shape-run-raises:%s|%s|%s' % (type(e).__name__, mode, 'first' if step == 0 else 'later'),
                         'detail': 'script %r (%s mode), run %d on message %d: %r' % (text, mode, step, i, e)})
            break
        w = want(i)
        ok = (got is w) if name == 'PBK_BUFR_MESSAGE' else (got == w)
        if not ok:
            viol.append({'sig': 'shape-value|%s|%s' % (mode, 'first' if step == 0 else 'later'),
                         'detail': 'script %r (%s mode), run %d on message %d: %r, expected %r' % (text, mode, step, i, str(got)[:120], str(w)[:120])})
            break
    return 'shape:%s:%s' % (mode, shape), viol


def build_shape_cases(tier):
    cases = []
    msgs = [[1, 2], [2], [0, 1, 1]]
    orders = [[0], [0, 1], [1, 0, 1], [0, 2, 0]] if tier == 'quick' else [list(o) for n in (1, 2, 3) for o in itertools.product(range(3), repeat=n)]
    for mode, shapes in (('exec', SHAPES_EXEC), ('eval', SHAPES_EVAL)):
        for shape, _ in shapes:
            for name in SHAPE_NAMES:
                for order in orders:
                    cases.append({'kind': 'shape', 'mode': mode, 'shape': shape, 'name': name, 'messages': msgs, 'order': order})
    return cases


GEN_COUNTS = [(0, 2), (2, 0), (1, 1), (0, 0), (0, 0, 1), (3,), (0,)]
GEN_QUERIES = ['/102000/012001', '012001', '>002001', '/001001', '/102000.031001', '@[1]>012001', '@[-1]/102000/002001[0]',
               '/102000/012001[-1]']


def run_cases(cases):
    p = Partial()
    for case in cases:
        outcome, viol = run_case(case)
        p.n['exec'] += 1
        p.outcome(outcome)
        for v in viol:
            p.violation(v['sig'], case, v['detail'])
    return p


def build_run_cases(tier):
    from pybufrkit.decoder import Decoder
    cases = []
    exprs = ['001001', '%n_subsets', ' %edition ', ' 008042', '%1.section_length']
    wheres = ['embed', 'quote', 'comment']
    for n in (1, 2, 3):
        for items in itertools.product(list(itertools.product(wheres, exprs)), repeat=n):
            if n == 3 and tier == 'quick' and len({w for w, e in items}) == 1 and items[0][0] != 'embed':
                continue
            cases.append({'kind': 'mdonly', 'items': [list(i) for i in items]})
    for fn in POOL_FILES:
        s = open(os.path.join(REPO, 'tests', fn), 'rb').read()
        msg = Decoder().process(s)
        td = msg.template_data.value
        labels = []
        for d in td.decoded_descriptors_all_subsets[0]:
            l = str(d)
            if l not in labels:
                labels.append(l)
        roots = ['/' + str(n.descriptor) for n in td.decoded_nodes_all_subsets[0]][:6]
        qs = labels[:12 if tier == 'quick' else 60] + roots + ['%n_subsets', '%length', '%3.section_length', '%nosuch']
        qs += ['@[0]>' + labels[0], '@[-1]>' + labels[-1], '@[::2]' + roots[0]]
        for q in qs:
            for arg in (None, 0, 1, 2, 4):
                for pragma in (None, 0, 1, 2, 4):
                    cases.append({'kind': 'run', 'file': fn, 'query': q, 'arg': arg, 'pragma': pragma})
    for counts in GEN_COUNTS:
        for comp in (False, True):
            if comp and len(set(counts)) > 1:
                continue                      # compressed data share the replication count
            for q in GEN_QUERIES:
                if q.startswith('@[1]') and len(counts) < 2:
                    continue
                for arg in (None, 0, 1, 2, 4):
                    for pragma in (None, 0, 2):
                        cases.append({'kind': 'run', 'file': '<generated>', 'counts': list(counts), 'compressed': comp,
                                      'query': q, 'arg': arg, 'pragma': pragma})
                if counts == GEN_COUNTS[0] and not comp:
                    for pragma in (0, 2, 4):
                        for form in (1, 2, 3):
                            cases.append({'kind': 'run', 'file': '<generated>', 'counts': list(counts), 'compressed': comp,
                                          'query': q, 'arg': None, 'pragma': pragma, 'pragma_form': form})
                    for fc in ('#$Id$\n', '#${001001} is the WMO block number\n', '#$\n', '#$ not a pragma\n'):
                        cases.append({'kind': 'run', 'file': '<generated>', 'counts': list(counts), 'compressed': comp,
                                      'query': q, 'arg': None, 'pragma': None, 'first_comment': fc})
    return cases


def run_cli_part(_):
    """`pybufrkit script` on two generated files (one runner object serves both): script given as argument, as file
    (-f) and on stdin; nesting level by -n, by pragma, by both, by neither; metadata-only scripts.  Every printed line
    must be what the documented levels give for that file."""
    from mc.engine.cli import run_cli
    from pybufrkit.decoder import Decoder
    from pybufrkit.dataquery import DataQuerent, NodePathParser
    p = Partial()
    scratch = os.environ.get('VERIF_SCRATCH') or '/dev/shm'
    files = []
    try:
        for k, (counts, comp) in enumerate((((0, 2), False), ((1, 1), True))):
            fn = os.path.join(scratch, 'c18_%d_%d.bufr' % (os.getpid(), k))
            with open(fn, 'wb') as f:
                f.write(generated_message(counts, comp))
            files.append(fn)
        sfile = os.path.join(scratch, 'c18_%d.script' % os.getpid())
        files.append(sfile)
        msgs = [Decoder().process(open(fn, 'rb').read()) for fn in files[:2]]
        for q in ('/102000/012001', '>002001', '/001001', '%n_subsets'):
            for pragma in (None, 0, 1, 2, 4):
                for arg in (None, 0, 1, 2, 4):
                    for how in ('arg', 'file', 'stdin'):
                        if how != 'arg' and (pragma, arg) not in ((None, None), (2, None), (None, 2), (4, 1), (0, None)):
                            continue
                        script = 'print(repr(${%s}))\n' % q
                        if pragma is not None:
                            script = '#$ data_values_nest_level = %d\n' % pragma + script
                        argv = ['script'] + (['-n', str(arg)] if arg is not None else [])
                        stdin = None
                        if how == 'arg':
                            argv += [script]
                        elif how == 'file':
                            with open(sfile, 'w') as f:
                                f.write(script)
                            argv += ['-f', sfile]
                        else:
                            argv += ['-']
                            stdin = script
                        argv += files[:2]
                        out, err, exc, code = run_cli(argv, stdin)
                        p.n['exec'] += 1
                        level = arg if arg is not None else (pragma if pragma is not None else 1)
                        exp = []
                        for m in msgs:
                            if q.startswith('%'):
                                exp.append(repr(m.n_subsets.value))
                                continue
                            l4 = DataQuerent(NodePathParser()).query(m, q).all_values()
                            l2 = [flat(x) for x in l4]
                            l1 = flat(l2)
                            exp.append(repr({0: l1[0] if l1 else None, 1: l1, 2: l2, 4: l4}[level]))
                        p.outcome((how, pragma is None, arg is None, q[0] == '%'))
                        case = {'query': q, 'pragma': pragma, 'arg': arg, 'how': how}
                        if exc is not None or code not in (None, 0):
                            p.violation('cli-script-fails|%s' % how, case, 'script command ended with %r / exit %r: %s' % (exc, code, err[-200:]))
                        elif out.split('\n')[:-1] != exp:
                            p.violation('cli-script-output|%s|%s' % ('pragma' if arg is None and pragma is not None else
                                                                       ('option' if arg is not None else 'default'), how), case,
                                        'printed %r, expected %r (level %d)' % (out.split('\n')[:-1], exp, level))
    finally:
        for fn in files:
            if os.path.exists(fn):
                os.remove(fn)
    return p


def replay(part, case):
    if part == 'cli':
        p = run_cli_part(None)
        return [{'sig': v['sig'], 'detail': v['detail']} for v in p.viol if v['case'] == case]
    from pybufrkit.script import process_embedded_query_expr as proc
    if part.startswith('strings'):
        o, v = judge(proc, case)
        return [{'sig': v[0], 'detail': v[1]}] if v else []
    if part.startswith('fragments'):
        o, v = judge(proc, case['s'])
        return [{'sig': v[0], 'detail': v[1]}] if v else []
    return run_case(case)[1]


def main(tier, seed):
    rep = Report(PID, tier, seed)
    rep.rule = ('strings: every string over the 10-symbol alphabet up to the bound (trie nodes); outcome class = '
                '(in-language?, distinct expressions, embed occurrences); run: full product message x query x '
                'argument level x pragma level')
    rep.trusted_base = ['mc.ref.scriptlang tokeniser (hand vectors in selftest)']
    rep.assumptions = ['script literals are escape free and not triple quoted; unterminated literals / ${ are outside '
                       'the language: executed (must not raise) but not compared (undefined_skipped)']
    N = 7 if tier == 'quick' else 8
    pre2 = [a + b for a in ALPHA for b in ALPHA]
    shards = [([''] + list(ALPHA), N)] + [([x], N) for x in pre2]
    k = seed % len(shards)
    p = merge_all(run_shards(run_strings, shards[k:] + shards[:k]))
    total = sum(len(ALPHA) ** n for n in range(0, N + 1))
    assert p.n['exec'] == total
    p.n['nodes'], p.n['edges'] = total, total - 1
    p.n['undefined_skipped'] = p.hist['undefined']
    p.sample("a=${a}#'\n"); p.sample("'${a}'")
    rep.add_part('strings-le%d' % N, p, bounds={'alphabet': ALPHA, 'max_len': N, 'strings': total})

    K = 4 if tier == 'quick' else 5
    shards = [([i], K) for i in range(len(FRAGS))]
    p = merge_all(run_shards(run_frag, shards))
    p.n['nodes'], p.n['edges'] = p.n['exec'] + 1, p.n['exec']
    p.n['undefined_skipped'] = p.hist['undefined']
    p.sample(''.join(FRAGS[:5]))
    rep.add_part('fragments-le%d' % K, p, bounds={'fragments': FRAGS, 'max_fragments': K})

    cases = build_run_cases(tier)
    p = merge_all(run_shards(run_cases, [cases[i::32] for i in range(32)]))
    p.n['nodes'], p.n['edges'] = len(cases) + 1, len(cases)
    p.sample(cases[0]); p.sample(cases[-1])
    rep.add_part('run', p, bounds={'files': POOL_FILES, 'levels': [None, 0, 1, 2, 4], 'cases': len(cases)})
    cases = build_shape_cases(tier)
    p = merge_all(run_shards(run_cases, [cases[i::32] for i in range(32)]))
    p.n['nodes'], p.n['edges'] = len(cases) + 1, len(cases)
    p.sample(cases[0]); p.sample(cases[-1])
    rep.add_part('run-shapes', p, bounds={'shapes_exec': [n for n, _ in SHAPES_EXEC], 'shapes_eval': [n for n, _ in SHAPES_EVAL],
                                          'names': SHAPE_NAMES, 'cases': len(cases),
                                          'runs_per_runner': 'orders of 1..3 runs over 3 messages on one ScriptRunner'},
                 rule='one case = one script (scope in which the substituted / injected name is used x name x exec / eval mode) '
                      'run on a sequence of messages with one ScriptRunner; every run must yield the value for ITS message')
    p = run_cli_part(None)
    p.n['nodes'], p.n['edges'] = p.n['exec'] + 1, p.n['exec']
    rep.add_part('cli', p, bounds={'invocations': p.n['exec'], 'files_per_invocation': 2, 'script_given_as': ['argument', '-f file', 'stdin'],
                                   'levels': 'option x pragma in {none,0,1,2,4}'})
    return rep.finish()
