"""
C17 -- metadata queries and metadata-only decoding agree with the full decode.

Parts (all full products, nothing sampled):
  query    every parameter name of every definitions/section*.json (names only are read from the
           files) + an unknown name  x  edition {2,3,4} x section 2 {absent, present}
           x index {none, 0..5, 6, 9, -1} x whitespace variants x message pool, on the fully
           decoded and on the metadata-only decoded message; expected value from mc.ref.message
           (positions hard-coded from FM-94), first match = lowest section index holding the name.
  malformed  expressions without leading '%' / with a non-numeric index => MetadataExprParsingError.
  infoonly every pool message x every single-byte corruption of the section-4 body and of
           section 5, plus wholesale overwrites: metadata-only decode succeeds, sections 0-3 equal
           the full decode of the undamaged message; a stream scanned in that mode cuts each message
           by its declared total length.
"""
from mc import REPO
import contextlib
import glob
import io
import json
import os

from mc.engine.harness import Partial, Report, merge_all
from mc.engine.pool import run_shards, split
from mc.gen import scenario as S
from mc.ref import codec, message

PID = 'C17'
DEFS = os.path.join(REPO, 'pybufrkit/definitions')


def parameter_names():
    names = []
    for f in sorted(glob.glob(os.path.join(DEFS, 'section*.json'))):
        with open(f) as fh:
            for p in json.load(fh)['parameters']:
                if p['name'] not in names:
                    names.append(p['name'])
    return names


META = {'master_table_number': 0, 'originating_centre': 98, 'originating_subcentre': 3, 'update_sequence_number': 6,
        'data_category': 2, 'data_i18n_subcategory': 21, 'data_local_subcategory': 45, 'master_table_version': 33,
        'local_table_version': 0, 'year': 23, 'month': 11, 'day': 27, 'hour': 13, 'minute': 58, 'second': 41}

TEMPLATES = [('plain', [1001, 5002], 1, False), ('comp', [301001, 12001], 2, True), ('repl', [102002, 1001, 2001, 205003], 3, False)]


def pool(category=None, variants=None):
    """[(name, bytes, spec, expected sections {index: {name: value}})]"""
    out = []
    B, D = S.tables_for(33)
    for ed in (2, 3, 4):
        for s2 in (None, b'\xa5\x0f'):
            for tname, descs, nsub, comp in TEMPLATES:
                if variants is not None and (tname, ed, s2 is not None) not in variants:
                    continue
                cnt = [0]

                def chooser(info):
                    cnt[0] += 1
                    if info['kind'] == 'str':
                        v = b'xyz'[:info['width'] // 8]
                        return [v] * nsub if comp else v
                    v = cnt[0] % 3
                    return [v + (k if info['width'] > 3 else 0) for k in range(nsub)] if comp else v
                buf, subs, notes, nb = codec.encode(B, D, descs, nsub, comp, chooser)
                meta = dict(META)
                if ed < 4:
                    meta['year'] = 99
                if category is not None:
                    meta['data_category'] = category
                spec = message.Spec(edition=ed, meta=meta, sec2=s2, descs=descs, nsub=nsub, compressed=comp)
                b, info = message.build(spec, buf)
                out.append(('%s-ed%d-%s%s' % (tname, ed, 's2' if s2 is not None else 'no2', '' if category is None else '-cat%d' % category),
                            b, spec, expected_sections(b, spec)))
    return out


def expected_sections(b, spec):
    pm = message.parse(b)
    exp = {0: {'start_signature': b'BUFR', 'length': len(b), 'edition': spec.edition}}
    s1 = {}
    for name, bits, kind in message.SEC1[spec.edition]:
        if name == 'section_length':
            s1[name] = pm.sections[1][1]
        elif kind == 'b':
            s1[name] = spec.sec2 is not None
        elif kind == 'z':
            s1[name] = '0' * bits
        else:
            s1[name] = spec.meta[name]
    exp[1] = s1
    if spec.sec2 is not None:
        n2 = pm.sections[2][1]
        exp[2] = {'section_length': n2, 'reserved_bits': '0' * 8,
                  'local_bits': ''.join(format(x, '08b') for x in b[pm.sections[2][0] + 4: pm.sections[2][0] + n2])}
    exp[3] = {'section_length': pm.sections[3][1], 'reserved_bits': '0' * 8, 'n_subsets': spec.nsub,
              'is_observation': True, 'is_compressed': spec.compressed, 'flag_bits': '0' * 6,
              'unexpanded_descriptors': list(spec.descs)}
    exp[4] = {'section_length': pm.sections[4][1], 'reserved_bits': '0' * 8, 'template_data': '<template data>'}
    exp[5] = {'stop_signature': b'7777'}
    return exp


INDEXES = [None, 0, 1, 2, 3, 4, 5, 6, 9, -1]
WS = ['%s', ' %s', '%s ', '\t%s\n']


def expected_value(exp, name, index, info_only):
    secs = sorted(k for k in exp if not (info_only and k == 5))
    for k in secs:
        if index is not None and k != index:
            continue
        d = exp[k]
        if info_only and k == 4:
            d = {n: v for n, v in d.items() if n != 'template_data'}
        if name in d:
            return True, d[name]
    return False, None


def run_query(items):
    from pybufrkit.decoder import Decoder
    from pybufrkit.mdquery import MetadataExprParser, MetadataQuerent
    from pybufrkit.templatedata import TemplateData
    p = Partial()
    dec = Decoder()
    q = MetadataQuerent(MetadataExprParser())
    names = parameter_names() + ['no_such_parameter']
    for mname, b, spec, exp in items:
        for info_only in (False, True):
            with contextlib.redirect_stderr(io.StringIO()):
                msg = dec.process(b, info_only=info_only)
            for name in names:
                for index in INDEXES:
                    for ws in WS:
                        expr = ws % ('%' + ('%d.' % index if index is not None else '') + name)
                        p.n['exec'] += 1
                        found, want = expected_value(exp, name, index, info_only)
                        try:
                            got = q.query(msg, expr)
                        except Exception as e:
                            p.violation('query-raises:%s|%s' % (type(e).__name__, name),
                                        {'message': mname, 'bytes': b, 'expr': expr, 'info_only': info_only}, repr(e))
                            continue
                        if want == '<template data>':
                            ok = isinstance(got, TemplateData)
                        else:
                            ok = (got == want and type(got) is type(want))
                        p.outcome((name, index is None, found, info_only, type(got).__name__))
                        if not ok:
                            p.violation('query-value|%s|%s' % (name, 'first-match' if index is None else 'indexed'),
                                        {'message': mname, 'bytes': b, 'expr': expr, 'info_only': info_only},
                                        '%r on %s (%s) gave %r, expected %r' % (expr, mname, 'info-only' if info_only else 'full', got, want),
                                        expected=want if want != '<template data>' else None)
        p.sample({'message': mname, 'bytes': b, 'names': len(names), 'indexes': len(INDEXES)})
    return p


MALFORMED = ['edition', 'n_subsets', '$edition', '1.edition', ' edition', 'x%edition', '%a.edition', '%.edition',
             '%1a.edition', '%one.length', '%1,5.x', '% .edition', '%0x1.length', '%1.5.x'.replace('.5', 'e'),
             # no leading '%' at all (nothing but blanks); a non-numeric section index in front of a dotted rest
             '', ' ', '\t', '%a.b.c', '%..length', '%x.1.length', '%a.b.length']
WELLFORMED = [('%edition', (None, 'edition')), ('%0.edition', (0, 'edition')), (' %3.n_subsets ', (3, 'n_subsets')),
              ('%12.x', (12, 'x')), ('%-1.y', (-1, 'y')), ('%x', (None, 'x'))]


def run_malformed(_):
    from pybufrkit.errors import MetadataExprParsingError
    from pybufrkit.mdquery import MetadataExprParser
    p = Partial()
    parser = MetadataExprParser()
    for expr in MALFORMED:
        p.n['exec'] += 1
        try:
            r = parser.parse(expr)
            p.violation('malformed-accepted', {'expr': expr}, '%r parsed to %r' % (expr, r))
        except MetadataExprParsingError:
            p.outcome(('rejected', expr))
        except Exception as e:
            p.violation('malformed-error-type:' + type(e).__name__, {'expr': expr}, repr(e))
    for expr, want in WELLFORMED:
        p.n['exec'] += 1
        try:
            r = parser.parse(expr)
        except Exception as e:
            p.violation('wellformed-rejected', {'expr': expr}, repr(e))
            continue
        p.outcome(('parsed', expr))
        if tuple(r) != want:
            p.violation('parse-result', {'expr': expr}, '%r parsed to %r, expected %r' % (expr, r, want))
    p.sample({'malformed': MALFORMED})
    return p


def sections_0_3(msg):
    out = []
    for sec in msg.sections:
        k = sec.get_metadata('index')
        if k <= 3:
            out.append((k, [(prm.name, prm.value) for prm in sec]))
    return out


def corruptions(b, pm):
    """yield (label, damaged bytes): every single byte of the section-4 body and of section 5, and wholesale"""
    off4, n4 = pm.sections[4]
    body = range(off4 + 4, off4 + n4)
    tail = range(off4 + n4, off4 + n4 + 4)
    for i in list(body) + list(tail):
        for x in (0xFF, 0x01):
            c = bytearray(b)
            c[i] ^= x
            yield 'byte%d^%02x' % (i - off4, x), bytes(c)
    for fill in (b'\xff', b'\0', b'BUFR', b'7777'):
        c = bytearray(b)
        for i in list(body) + list(tail):
            c[i] = fill[(i - off4) % len(fill)]
        yield 'fill-' + fill.hex(), bytes(c)


def run_infoonly(items):
    from pybufrkit.decoder import Decoder, generate_bufr_message
    p = Partial()
    dec = Decoder()
    for mname, b, spec, exp in items:
        with contextlib.redirect_stderr(io.StringIO()):
            full = dec.process(b)
        want = sections_0_3(full)
        pm = message.parse(b)
        cases = [('intact', b)] + list(corruptions(b, pm))
        for label, c in cases:
            p.n['exec'] += 1
            case = {'message': mname, 'damage': label, 'bytes': c}
            with contextlib.redirect_stderr(io.StringIO()):
                try:
                    m = dec.process(c, info_only=True)
                except Exception as e:
                    p.violation('infoonly-raises:' + type(e).__name__, case, 'metadata-only decode raised %r' % (e,))
                    continue
            got = sections_0_3(m)
            p.outcome((spec.edition, spec.sec2 is not None, label.split('^')[0][:4], len(m.sections)))
            if got != want:
                p.violation('infoonly-differs', case, 'sections 0-3 of the metadata-only decode differ from the full decode')
                continue
            if any(prm.name == 'template_data' for sec in m.sections for prm in sec):
                p.violation('infoonly-has-data', case, 'metadata-only decode produced template data')
                continue
            # stream scan in metadata-only mode: bytes by declared total length
            stream = b'\r\n' + c + b'xx' + b + b'7777'
            # without a filter expression and with filter expressions (over metadata) that accept every message / only
            # messages of this edition: the bytes of a delivered message do not depend on why it was delivered
            for fexpr in (None, '${%edition} > 0', '${%edition} == ' + str(spec.edition) + ' and ${%n_subsets} >= 0'):
                with contextlib.redirect_stderr(io.StringIO()):
                    try:
                        spans = [x.serialized_bytes for x in generate_bufr_message(dec, stream, info_only=True, filter_expr=fexpr)]
                    except Exception as e:
                        p.violation('scan-raises:' + type(e).__name__ + ('|filter' if fexpr else ''), case, repr(e))
                        break
                if spans != [c, b]:
                    p.violation('scan-spans' + ('|filter' if fexpr else ''), case, 'metadata-only scan%s gave spans of %r bytes, '
                                'expected %r' % (' with filter %r' % fexpr if fexpr else '', [len(x) for x in spans], [len(c), len(b)]))
                    break
        p.sample({'message': mname, 'corruptions': len(cases)})
    return p


def run_option_histories(args):
    """metadata-only decoding after every history of <= 2 earlier calls on the SAME decoder, each call full or
    metadata-only, with or without ignore_value_expectation, on this message or on one of another edition: the probe
    (metadata-only, data section overwritten, with and without ignore_value_expectation) must still succeed without
    reading the data and give the sections 0-3 of the full decode"""
    import itertools
    from pybufrkit.decoder import Decoder
    items, allitems = args
    p = Partial()
    menu = [(info, ive, other) for info in (False, True) for ive in (False, True) for other in (False, True)]
    hists = [()] + [(a,) for a in menu] + list(itertools.product(menu, repeat=2))
    for mname, b, spec, exp in items:
        other = next(x[1] for x in allitems if x[2].edition != spec.edition)
        with contextlib.redirect_stderr(io.StringIO()):
            want = sections_0_3(Decoder().process(b))
        pm = message.parse(b)
        damaged = dict(corruptions(b, pm))['fill-ff']
        want_idx = [k for k in (0, 1, 2, 3, 4) if k in pm.sections or k == 0]
        p.n['nodes'] += 1
        for h in hists:
            for probe_ive in (False, True):
                dec = Decoder()
                with contextlib.redirect_stderr(io.StringIO()):
                    for info, ive, oth in h:
                        try:
                            dec.process(other if oth else b, info_only=info, ignore_value_expectation=ive)
                        except Exception:
                            pass
                    p.n['exec'] += 1
                    p.n['edges'] += len(h) + 1
                    case = {'message': mname, 'history': [list(x) for x in h], 'probe_ive': probe_ive}
                    try:
                        m = dec.process(damaged, info_only=True, ignore_value_expectation=probe_ive)
                    except Exception as e:
                        p.violation('history|infoonly-raises:' + type(e).__name__, case,
                                    'after %r (info_only, ignore_value_expectation, other message) the metadata-only decode of the '
                                    'message with overwritten data raised %r' % (h, e))
                        continue
                p.outcome((spec.edition, len(h), probe_ive))
                idx = [sec.get_metadata('index') for sec in m.sections]
                if sections_0_3(m) != want:
                    p.violation('history|infoonly-differs', case, 'after %r sections 0-3 differ from the full decode' % (h,))
                elif idx != want_idx or any(prm.name == 'template_data' for sec in m.sections for prm in sec):
                    p.violation('history|infoonly-has-data', case,
                                'after %r the metadata-only decode delivered sections %r (expected %r) / template data' % (h, idx, want_idx))
    return p


def run_cli_part(_):
    """`pybufrkit query '%[k.]name' f1 f2 f3` (one decoder and one invocation for messages of editions 2, 3 and 4, in
    every order): for each file its name, then the value of the first section holding the name (None if there is none)"""
    import itertools
    from mc.engine.cli import run_cli
    p = Partial()
    items = pool()
    pick = [next(x for x in items if x[2].edition == ed and (x[2].sec2 is not None) == s2) for ed, s2 in ((2, False), (3, True), (4, False))]
    scratch = os.environ.get('VERIF_SCRATCH') or '/dev/shm'
    files = []
    try:
        for k, it in enumerate(pick):
            fn = os.path.join(scratch, 'c17_%d_%d.bufr' % (os.getpid(), k))
            with open(fn, 'wb') as f:
                f.write(it[1])
            files.append(fn)
        names = ['edition', 'length', 'originating_subcentre', 'master_table_number', 'data_category', 'n_subsets', 'section_length',
                 'local_bits', 'is_compressed', 'unexpanded_descriptors', 'year', 'update_sequence_number', 'nosuch']
        for order in itertools.permutations(range(3)):
            for name in names:
                for index in (None, 1, 2, 3):
                    if index is not None and order != (0, 1, 2) and name not in ('section_length', 'originating_subcentre'):
                        continue
                    expr = '%' + ('%d.' % index if index is not None else '') + name
                    out, err, exc, code = run_cli(['query', expr] + [files[i] for i in order])
                    p.n['exec'] += 1
                    want = []
                    for i in order:
                        want.append(files[i])
                        want.append(str(expected_value(pick[i][3], name, index, True)[1]))
                    p.outcome((name, index is None, order == (0, 1, 2)))
                    case = {'expr': expr, 'order': list(order)}
                    if exc is not None or code not in (None, 0):
                        p.violation('cli-query-fails', case, 'ended with %r / exit %r: %s' % (exc, code, err[-200:]))
                    elif out.split('\n')[:-1] != want:
                        p.violation('cli-query-output|%s' % name, case, 'printed %r, expected %r' % (out.split('\n')[:-1], want))
    finally:
        for fn in files:
            if os.path.exists(fn):
                os.remove(fn)
    return p


def extra_pool():
    """the C04 structures (every data length 0..32 x section-3 size x edition x section-2 variant)"""
    from mc.checks import c04
    out = []
    for st in c04.structures():
        spec, buf, subs = c04.ref_message(st)
        b, info = message.build(spec, buf)
        out.append(('c04:%s-ed%d-%s' % (st[0][0], st[1], st[2].hex() if st[2] is not None else 'no2'), b, spec,
                    expected_sections(b, spec)))
    return out


def run_corpus(msgs):
    """sample corpus: metadata-only decode == sections 0-3 of the full decode, also with the data body overwritten"""
    from pybufrkit.decoder import Decoder
    p = Partial()
    dec = Decoder()
    for name, k, m in msgs:
        case = {'file': name, 'index': k}
        with contextlib.redirect_stderr(io.StringIO()):
            try:
                full = dec.process(m, wire_template_data=False)
            except Exception as e:
                p.n['undecodable'] += 1
                continue
        want = sections_0_3(full)
        pm = message.parse(m)
        off4, n4 = pm.sections[4]
        variants = [('intact', m)]
        for fill in (b'\xff', b'BUFR'):
            c = bytearray(m)
            for i in range(off4 + 4, len(m)):
                c[i] = fill[i % len(fill)]
            variants.append(('fill-' + fill.hex(), bytes(c)))
        for label, c in variants:
            p.n['exec'] += 1
            with contextlib.redirect_stderr(io.StringIO()):
                try:
                    got = sections_0_3(dec.process(c, info_only=True))
                except Exception as e:
                    p.violation('corpus-infoonly-raises:' + type(e).__name__, dict(case, damage=label), repr(e))
                    continue
            p.outcome((pm.edition, pm.sec2 is not None, label))
            if got != want:
                p.violation('corpus-infoonly-differs', dict(case, damage=label),
                            'sections 0-3 of the metadata-only decode differ from the full decode')
    return p


def replay(part, case):
    if part == 'cli':
        p = run_cli_part(None)
        return [{'sig': v['sig'], 'detail': v['detail']} for v in p.viol if v['case'] == case]
    if part == 'infoonly-option-histories':
        items = pool()
        p = run_option_histories(([x for x in items if x[0] == case['message']], items))
        return [{'sig': v['sig'], 'detail': v['detail']} for v in p.viol
                if v['case']['history'] == case['history'] and v['case']['probe_ive'] == case['probe_ive']]
    if part == 'corpus':
        from mc.gen.corpus import TESTS, scan
        m = scan(open(os.path.join(TESTS, case['file']), 'rb').read())[case['index']]
        p = run_corpus([(case['file'], case['index'], m)])
        return [{'sig': v['sig'], 'detail': v['detail']} for v in p.viol if v['case']['damage'] == case['damage']]
    items = [x for x in pool() + (extra_pool() if str(case.get('message')).startswith('c04:') else [])
             if x[0] == case.get('message')]
    if part == 'malformed':
        p = run_malformed(None)
        return [{'sig': v['sig'], 'detail': v['detail']} for v in p.viol if v['case'].get('expr') == case['expr']]
    if part == 'query':
        p = run_query(items)
        return [{'sig': v['sig'], 'detail': v['detail']} for v in p.viol
                if v['case']['expr'] == case['expr'] and v['case']['info_only'] == case['info_only']]
    p = run_infoonly(items)
    return [{'sig': v['sig'], 'detail': v['detail']} for v in p.viol if v['case']['damage'] == case['damage']]


def main(tier, seed):
    rep = Report(PID, tier, seed)
    rep.rule = ('query: full product message x decode mode x parameter name x section index x whitespace variant, outcome '
                'class = (name, indexed?, found?, mode, result type); infoonly: message x every single-byte corruption of the '
                'section-4 body and section 5 (two XOR masks) + 4 wholesale fills')
    rep.trusted_base = ['mc.ref.message (FM-94 positions of every section-0..3 field); parameter NAMES are read from the '
                        'definitions files, values and positions are not']
    rep.assumptions = ['expressions with two dots or empty expressions are outside the statement',
                       'corruption is confined to the section-4 body (after its 4-octet header) and section 5: the '
                       'metadata-only decode reads the header of section 4 to skip its body']
    items = pool()
    k = seed % len(items)
    items = items[k:] + items[:k]
    p = merge_all(run_shards(run_query, split(items, 18)))
    p.n['nodes'], p.n['edges'] = p.n['exec'] + 1, p.n['exec']
    rep.add_part('query', p, bounds={'messages': len(items), 'names': len(parameter_names()) + 1,
                                     'indexes': [str(i) for i in INDEXES], 'whitespace_variants': len(WS), 'modes': 2})
    p = run_malformed(None)
    p.n['nodes'], p.n['edges'] = p.n['exec'] + 1, p.n['exec']
    rep.add_part('malformed', p, bounds={'malformed': len(MALFORMED), 'wellformed': len(WELLFORMED)})
    extra = extra_pool()
    if tier == 'quick':
        extra = [x for i, x in enumerate(extra) if i % 8 == seed % 8]      # 1/8 slice of the thorough-only extension
    p = merge_all(run_shards(run_infoonly, split(items + extra, 64)))
    p.n['nodes'], p.n['edges'] = p.n['exec'] + 1, p.n['exec']
    rep.add_part('infoonly', p, bounds={'messages': len(items), 'c04_structures': len(extra), 'xor_masks': ['ff', '01'],
                                        'fills': 4}, exhaustive=True,
                 extra={'note': 'quick visits the 1/8 slice (by VERIF_SEED) of the C04 structure pool, thorough all of it'})
    # every data category (the scanner treats category 11 = table definitions specially when data are decoded; reading
    # metadata only must not look at the data of ANY category), one message per edition
    cat_variants = {('plain', 4, False), ('comp', 3, True), ('repl', 2, False)}
    cats = list(range(256))
    citems = [it for c in cats for it in pool(category=c, variants=cat_variants)]
    p = merge_all(run_shards(run_infoonly, split(citems, 64)))
    p.n['nodes'], p.n['edges'] = p.n['exec'] + 1, p.n['exec']
    rep.add_part('infoonly-categories', p, bounds={'data_categories': len(cats), 'messages': len(citems), 'xor_masks': ['ff', '01'],
                                                   'fills': 4, 'templates': sorted('%s-ed%d' % (t, e) for t, e, _ in cat_variants)})
    p = merge_all(run_shards(run_option_histories, [([it], items) for it in items]))
    rep.add_part('infoonly-option-histories', p, bounds={'messages': len(items), 'earlier_calls': '<= 2 from {full, metadata-only} x '
                                                         '{ignore_value_expectation or not} x {this message, another edition}',
                                                         'probes': 2})
    if tier == 'thorough':
        p = merge_all(run_shards(run_query, split(extra, 64)))
        p.n['nodes'], p.n['edges'] = p.n['exec'] + 1, p.n['exec']
        rep.add_part('query-c04pool', p, bounds={'messages': len(extra)})
    p = run_cli_part(None)
    p.n['nodes'], p.n['edges'] = p.n['exec'] + 1, p.n['exec']
    rep.add_part('cli', p, bounds={'invocations': p.n['exec'], 'files_per_invocation': 3, 'orders': 6})
    from mc.gen import corpus
    msgs = list(corpus.messages(max_bytes=6000 if tier == 'quick' else None))
    p = merge_all(run_shards(run_corpus, split(msgs, 64)))
    p.n['nodes'], p.n['edges'] = p.n['exec'] + 1, p.n['exec']
    p.sample({'file': msgs[0][0], 'index': msgs[0][1]})
    rep.add_part('corpus', p, bounds={'messages': len(msgs)})
    return rep.finish()
