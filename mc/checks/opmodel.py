"""
E2 -- explicit-state BFS over the operator-register model (used by C01 'decode',
C02 'encode', C08 'compiled').

Abstract state = the reference interpreter's register record after a history of
template fragments (201/202/203/204/207/208/221 registers).  The space is finite
under the event alphabet; BFS runs to a fixpoint.  A state is represented by a
shortest history; every (state, event) transition is executed on the real code as
history + event + probe suffix and compared with the reference model.
"""
from mc.engine.harness import Partial
from mc.gen import scenario as S
from mc.ref import codec, message, tables

N4, C3, N7, NS, NN, C2, S9, F2 = 11106, 33003, 1001, 5002, 7002, 2001, 1011, 2103
PROBE = [N4, C3, N7, NS, NN, C2, S9, F2]

# event name -> (descriptor fragment, enabled(state)) ; state = dict of registers
EVENTS = [
    ('201+2', [201130]), ('201-2', [201126]), ('201off', [201000]),
    ('202+1', [202129]), ('202-1', [202127]), ('202off', [202000]),
    ('207.1', [207001]), ('207off', [207000]),
    ('208.2', [208002]), ('208off', [208000]),
    ('204.2', [204002, 31021]), ('204off', [204000]),
    ('203def', [203010, NS, 203255]), ('203off', [203000]),
    ('206', [206005, 54001]),
    ('221.1', [221001]), ('221.2', [221002]),
    ('n7', [N7]), ('ns', [NS]), ('s9', [S9]), ('n4', [N4]), ('seq', [301001]),
    ('R2', [101002, NS]), ('Dz8', [101000, 31001, NS]),
]


def registers(it):
    return (it.woff, it.soff, it.y207, it.nbytes, tuple(it.assoc), tuple(sorted(it.newref.items())), it.dnp)


def enabled(reg, name):
    woff, soff, y207, nbytes, assoc, newref, dnp = reg
    if dnp:
        return name in ('n7', 'ns', 's9', 'n4')          # 221 may only cover plain elements (envelope)
    if name == '204off':
        return bool(assoc)
    if name == '204.2':
        return not assoc                                   # nested 204 is outside the envelope
    if name in ('203def',):
        return not assoc                                   # 204 active across a 203 block: outside the envelope
    if name == '206':
        return not assoc and not dnp
    if name == 'Dz8':
        return not (woff or soff or y207)                  # class 31 inside 201/202/207: outside the envelope
    return True


def default_chooser(nsub, compressed):
    def ch(info):
        kind, w = info['kind'], info['width']
        if info.get('role') == 'factor':
            v = 1
        elif kind == 'refdef':
            v = -5
        elif kind == 'str':
            v = b'Qz' * (w // 16) + b'Q' * ((w // 8) % 2)
        else:
            v = 5 % (1 << w) if w > 2 else (1 if w > 1 else 0)
        if compressed:
            if kind in ('refdef',) or info.get('role'):
                return [v] * nsub
            if kind == 'str':
                return [v] + [v[::-1]] * (nsub - 1)
            return [v] + [max(0, v - 1)] * (nsub - 1)
        return v
    return ch


def reference(descs, nsub, compressed, hist_len=None):
    """-> (bytes, spec, subs, registers after the first hist_len descriptors, notes)"""
    B, D = tables.load(33)
    port = codec.EncPort(default_chooser(nsub, compressed), nsub, compressed)
    out, notes, reg = [], [], None
    runs = 1 if compressed else nsub
    for s in range(runs):
        it = codec.Interp(B, D, port, None if compressed else s)
        if hist_len is not None:
            it.run(descs[:hist_len])
            reg = registers(it)
            it.run(descs[hist_len:])
        else:
            it.run(descs)
        notes += it.ambiguous
        if compressed:
            out = [codec._collect(it, k) for k in range(nsub)]
        else:
            out.append(codec._collect(it, 0))
    spec = message.Spec(edition=4, descs=descs, nsub=nsub, compressed=compressed)
    b, info = message.build(spec, port.buf)
    return b, spec, out, reg, notes


def judge(mode, descs, nsub, compressed):
    """-> (violation or None, registers-independent outcome)"""
    from mc.checks import codec_common as CC
    try:
        b, spec, subs, reg, notes = reference(descs, nsub, compressed)
    except codec.RefError as e:
        return None, ('ref-error',)
    if notes:
        return None, ('envelope',)
    if mode == 'decode':
        st = S.impl_decode(CC.decoder(), b)
        if st[0] == 'exc':
            return ('decode-raises:' + st[1], 'decoding raised %s: %s' % (st[1], st[2][:160])), ('exc',)
        return S.compare_subsets(st[1], subs), ('ok', len(subs[0].labels))
    if mode == 'encode':
        fj = message.flat_json(spec, [s.values for s in subs])
        try:
            msg = CC.encoder().process(fj, wire_template_data=False)
        except Exception as e:
            return ('encode-raises:' + type(e).__name__, 'encoding raised %r' % e), ('exc',)
        if msg.serialized_bytes != b:
            return ('bytes', 'encoded bytes differ: %s expected %s' % (msg.serialized_bytes.hex(), b.hex())), ('diff',)
        return None, ('ok', len(subs[0].labels))
    if mode == 'compiled':
        from pybufrkit.decoder import Decoder
        st0 = S.impl_decode(CC.decoder(), b)
        st1 = S.impl_decode(Decoder(compiled_template_cache_max=4), b)
        if st0[0] != st1[0] or (st0[0] == 'exc' and st0[1] != st1[1]):
            return ('compiled-status', 'plain %r vs compiled %r' % (st0[:2], st1[:2])), ('diff',)
        if st0[0] == 'ok' and st0[1] != st1[1]:
            return ('compiled-result', 'compiled decode differs from plain decode'), ('diff',)
        return None, ('ok', st0[0])
    raise ValueError(mode)


def explore(mode, tier):
    p = Partial()
    B, D = tables.load(33)
    envs = [(1, False), (2, True)] if tier == 'quick' else [(1, False), (2, True), (2, False), (1, True), (3, True)]
    start = (0, 0, 0, 0, (), (), 0)
    seen = {start: []}
    frontier = [start]
    trans = 0
    names = dict(EVENTS)
    while frontier:
        nxt = []
        for reg in frontier:
            hist = seen[reg]
            for name, frag in EVENTS:
                if not enabled(reg, name):
                    continue
                trans += 1
                descs = hist + frag
                # successor state according to the reference model
                try:
                    _, _, _, reg2, notes = reference(descs + PROBE, 1, False, hist_len=len(descs))
                except codec.RefError:
                    continue
                if notes:
                    p.n['envelope_skipped'] += 1
                    continue
                for nsub, comp in envs:
                    v, outcome = judge(mode, descs + PROBE, nsub, comp)
                    p.n['exec'] += 1
                    p.outcome((reg2, name, comp))
                    if v:
                        p.violation('%s|opmodel|%s' % (v[0], name), {'descs': descs + PROBE, 'nsub': nsub,
                                                                     'compressed': comp, 'mode': mode}, v[1])
                if reg2 not in seen:
                    seen[reg2] = descs
                    nxt.append(reg2)
        frontier = nxt
    p.n['nodes'] = len(seen)
    p.n['edges'] = trans
    longest = max(seen.values(), key=len)
    p.sample({'history': longest, 'probe': PROBE})
    info = {'events': [n for n, f in EVENTS], 'probe': PROBE, 'envelopes': envs, 'fixpoint': True,
            'max_history': len(longest)}
    return p, info


def replay(case, mode=None):
    v, outcome = judge(case.get('mode', mode), case['descs'], case['nsub'], case['compressed'])
    return [{'sig': v[0], 'detail': v[1]}] if v else []
