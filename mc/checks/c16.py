"""
C16 -- data queries return exactly the values the path designates.

For every message of the space, every id-path that EXISTS in its hierarchical structure through child (/)
and attribute (.) steps (depth <= 6; enumerated by mc.ref.nested from the nested JSON of every subset) plus
one absent id per message is queried with slice deviations: at most d steps carry a slice from
{[0], [1], [-1], [5], [::2], [1:], [:1], [-2], [::-1]} (E1 deviation bound; d = 1 quick, 2 thorough), and with the
subset selectors {@[0], @[-1], @[::2], @[1:]}.  Expected value = mc.ref.nested.evaluate (documented
semantics A.7: envelope per replication, one list per repetition, positions chosen in the first repetition,
document order) over the message's own nested JSON.  Bare ids of ordinary elements must return every value
carrying that id in the flat data, per subset, in order.  The same data stored compressed / uncompressed and
decoded with / without template compilation must give identical results for every query.
Messages: template grammar G(1,1) with nested bodies (all replication counts incl. zero are structure
choices), the C07 bitmap structures (attributes on elements and factors, marker/QA attributes, meanings),
and the sample corpus.
"""
import contextlib
import io
import itertools
import os

from mc.checks import codec_common as CC
from mc.engine import tree
from mc.engine.harness import Partial, Report, merge_all
from mc.engine.pool import run_shards, split
from mc.gen import bitmaps as BM
from mc.gen import corpus
from mc.gen import grammar as G
from mc.gen import scenario as S
from mc.ref import codec, message, nested
from mc.ref.compare import same_value

PID = 'C16'

SLICES = [None, '[0]', '[1]', '[-1]', '[5]', '[::2]', '[1:]', '[:1]', '[-2]', '[::-1]']
SELECTORS = [None, '@[0]', '@[-1]', '@[::2]', '@[1:]']
_q = None
_cdec = None


def querent():
    global _q
    if _q is None:
        from pybufrkit.dataquery import DataQuerent, NodePathParser
        _q = DataQuerent(NodePathParser())
    return _q


def compiled_decoder():
    global _cdec
    if _cdec is None:
        from pybufrkit.decoder import Decoder
        _cdec = Decoder(compiled_template_cache_max=8)
    return _cdec


def slice_of(text):
    from mc.ref.pathlang import ALL, _slice_obj
    return ALL if text is None else _slice_obj(text)


def nested_td(msg):
    from pybufrkit.renderer import NestedJsonRenderer
    nj = NestedJsonRenderer().render(msg)
    return [p for sec in nj for p in sec if p['name'] == 'template_data'][0]['value']


def same_nested(a, b):
    if isinstance(a, list) and isinstance(b, list):
        return len(a) == len(b) and all(same_nested(x, y) for x, y in zip(a, b))
    if isinstance(a, list) or isinstance(b, list):
        return False
    return same_value(a, b)


def run_query(msg, expr):
    """-> ('ok', {subset: values}) | ('QueryError',) | ('exc', type)"""
    from pybufrkit.errors import QueryError
    try:
        qr = querent().query(msg, expr)
    except QueryError:
        return ('QueryError',)
    except Exception as e:
        return ('exc', type(e).__name__ + ': ' + str(e)[:80])
    return ('ok', dict((i, qr.get_values(i)) for i in qr.subset_indices()))


def expected(td, selector, comps):
    """-> ('ok', {subset: values}) | ('undefined',)"""
    from mc.ref.pathlang import apply_slice
    n = len(td)
    subs = list(range(n)) if selector is None else apply_slice(slice_of(selector[1:]), list(range(n)))
    out = {}
    # a selector that selects nothing leaves no subset on which the path could be found undefined: the path is then
    # judged on all subsets (a path that is undefined as such stays undefined under an empty selection)
    for i in (subs or range(n)):
        root = {'id': 'TEMPLATE', 'members': td[i]}
        try:
            v = nested.evaluate(root, comps)
        except nested.Undefined:
            return ('undefined',)
        if subs:
            out[i] = v
    return ('ok', out)


def path_text(selector, path, slices):
    return (selector or '') + ''.join(sep + ident + (sl or '') for (sep, ident), sl in zip(path, slices))


def all_paths(td, maxdepth=6, cap=None):
    seen, out = set(), []
    for sub in td:
        for pth in nested.id_paths(sub, maxdepth):
            k = tuple(pth)
            if k not in seen:
                seen.add(k)
                out.append(pth)
        if cap and len(out) >= cap:
            break
    return out[:cap] if cap else out


def ordinary_ids(td, labels_all):
    """element ids that occur only as plain members (never as factor / attribute) anywhere in the message"""
    attached = set()

    def walk(ns):
        for n in ns:
            if 'value' not in n and n['id'][:1] == '0':
                attached.add(n['id'])          # an element without data (221YYY): no value to return
            if 'factor' in n:
                attached.add(n['factor']['id'])
                walk([n['factor']])
            for a in n.get('attributes', []):
                attached.add(a['id'])
                walk([a])
            if 'members' in n:
                if nested.is_replication(n):
                    for rep in n['members']:
                        walk(rep)
                else:
                    walk(n['members'])
    for sub in td:
        walk(sub)
    ids = []
    for labels in labels_all:
        for l in labels:
            if l[:1] == '0' and l not in attached and l not in ids:
                ids.append(l)
    return ids


def _lattice():
    vals = [None, -6, -4, -2, -1, 0, 1, 2, 3, 4, 6]
    out = [None] + ['[%d]' % k for k in range(-6, 7)]
    for a in vals:
        for b in vals:
            for c in (None, 1, 2, -1, -2):
                t = '[%s:%s%s]' % ('' if a is None else a, '' if b is None else b, '' if c is None else ':%d' % c)
                if t not in out:
                    out.append(t)
    return out


LATTICE = _lattice()
LATTICE_SELECTORS = [None] + ['@' + t for t in LATTICE[1:] if not (t[1:-1].lstrip('-').isdigit() and not -4 <= int(t[1:-1]) < 4)]


def judge_message(b, bound, variants=(), path_cap=None, slices_last_only=False, SLICES=SLICES, SELECTORS=SELECTORS):
    """explore every (path, slice deviation, selector) of one message.  variants: other encodings of the same data
    (compressed / uncompressed) that must answer every query identically.
    -> (counters, list of (sig, detail, expr))"""
    cnt = {'queries': 0, 'undefined_skipped': 0, 'paths': 0}
    viols = []
    st = S.impl_decode(CC.decoder(), b)
    if st[0] == 'exc':
        return cnt, [('skip', st[1], '')]
    msg = st[2]
    try:
        td = nested_td(msg)
    except Exception as e:
        return cnt, [('skip', 'nested json: %r' % e, '')]
    others = []
    with contextlib.redirect_stderr(io.StringIO()):
        try:
            others.append(('compiled', compiled_decoder().process(b)))
        except Exception as e:
            viols.append(('compiled-decode-raises:' + type(e).__name__, repr(e)[:120], ''))
        for vb in variants:
            try:
                others.append(('other-storage', CC.decoder().process(vb)))
            except Exception as e:
                viols.append(('variant-decode-raises:' + type(e).__name__, repr(e)[:120], ''))
    paths = all_paths(td, cap=path_cap)
    cnt['paths'] = len(paths)
    absent = [[('/', '063250')]] + ([paths[0] + [('/', '063250')], paths[0] + [('.', '063250')]] if paths else [])

    def one(selector, path, slices):
        expr = path_text(selector, path, slices)
        comps = [(sep, ident, slice_of(sl)) for (sep, ident), sl in zip(path, slices)]
        exp = expected(td, selector, comps)
        cnt['queries'] += 1
        if exp[0] == 'undefined':
            cnt['undefined_skipped'] += 1
            return
        got = run_query(msg, expr)
        if got[0] != 'ok':
            viols.append(('query-raises:%s' % got[0] + ('' if got[0] == 'QueryError' else ':' + got[1].split(':')[0]),
                          '%r: %r, expected %r' % (expr, got, exp[1]), expr))
            return
        if sorted(got[1]) != sorted(exp[1]):
            viols.append(('subsets-selected', '%r selects subsets %r, expected %r' % (expr, sorted(got[1]), sorted(exp[1])), expr))
            return
        for i in exp[1]:
            if not same_nested(got[1][i], exp[1][i]):
                kind = 'attribute' if any(sep == '.' for sep, _ in path) else 'child'
                sl = 'sliced' if any(slices) else 'plain'
                viols.append(('result|%s|%s' % (kind, sl), '%r subset %d: %r, expected %r' % (expr, i, got[1][i], exp[1][i]), expr))
                return
        for oname, om in others:
            g2 = run_query(om, expr)
            if g2[0] != 'ok' or sorted(g2[1]) != sorted(got[1]) or not all(same_nested(g2[1][i], got[1][i]) for i in got[1]):
                viols.append(('%s-differs' % oname, '%r: %r vs %r' % (expr, g2, got[1]), expr))
                return

    for path in paths + absent:
        n = len(path)
        one(None, path, [None] * n)
        for sel in SELECTORS[1:]:
            one(sel, path, [None] * n)
        steps = [n - 1] if slices_last_only else range(n)
        for k in steps:
            for sl in SLICES[1:]:
                s = [None] * n
                s[k] = sl
                one(None, path, s)
        if bound >= 2 and not slices_last_only:
            for k1, k2 in itertools.combinations(range(n), 2):
                for s1 in SLICES[1:]:
                    for s2 in SLICES[1:]:
                        s = [None] * n
                        s[k1], s[k2] = s1, s2
                        one(None, path, s)
    # bare ids of ordinary elements
    tdv = msg.template_data.value
    labels_all = [[str(d) for d in ds] for ds in tdv.decoded_descriptors_all_subsets]
    for ident in ordinary_ids(td, labels_all):
        for sel in (None, '@[-1]'):
            expr = ident if sel is None else sel + '>' + ident
            cnt['queries'] += 1
            got = run_query(msg, expr)
            from mc.ref.pathlang import apply_slice
            subs = list(range(len(labels_all))) if sel is None else apply_slice(slice_of(sel[1:]), list(range(len(labels_all))))
            if got[0] != 'ok':
                viols.append(('bare-id-raises:' + got[0], '%r: %r' % (expr, got), expr))
                continue
            if sorted(got[1]) != subs:
                viols.append(('bare-id-subsets', '%r selects %r, expected %r' % (expr, sorted(got[1]), subs), expr))
                continue
            for i in subs:
                want = [v for l, v in zip(labels_all[i], tdv.decoded_values_all_subsets[i]) if l == ident]
                flat = _flatten(got[1][i])
                if len(flat) != len(want) or not all(same_value(x, y) for x, y in zip(flat, want)):
                    viols.append(('bare-id-values', '%r subset %d: %r, flat data has %r' % (expr, i, flat[:8], want[:8]), expr))
                    break
            for oname, om in others:
                g2 = run_query(om, expr)
                if g2[0] != 'ok' or not all(same_nested(g2[1].get(i), got[1][i]) for i in got[1]):
                    viols.append(('%s-differs|bare' % oname, '%r' % (expr,), expr))
                    break
    return cnt, viols


def _flatten(v):
    out = []
    for x in v:
        if isinstance(x, list):
            out.extend(_flatten(x))
        else:
            out.append(x)
    return out


# ------------------------------------------------------------------------------------------
def other_storage(ctx_vector, descs, env, queues=None, free=None):
    """the same per-subset data stored the other way (only when the structure data are shared)"""
    return None


def msg_body(item, env, bound):
    name, descs, queues, free = item

    def body(ctx):
        try:
            # field values differ from item to item and between subsets, so that a value taken from the wrong node shows
            if queues is None:
                b, spec, subs, notes = S.build_distinct_message(ctx, descs, nsub=env['nsub'], compressed=env['compressed'],
                                                                share_structure=True)
            else:
                b, spec, subs, notes = S.build_distinct_message(ctx, descs, nsub=env['nsub'], compressed=env['compressed'],
                                                                queues=queues, free=free,
                                                                variant_of_subset=env.get('vmap') or [0] * env['nsub'])
        except codec.RefError as e:
            return {'skip': 'ref'}
        if notes:
            return {'skip': 'envelope'}
        variants = []
        if env['nsub'] > 1 and not env.get('vmap'):
            # same subsets stored the other way: rebuild from the expected raws
            try:
                variants.append(restore(descs, subs, not env['compressed']))
            except (codec.RefError, ValueError):
                pass
        if env.get('lattice'):
            cnt, viols = judge_message(b, bound, variants, SLICES=LATTICE, SELECTORS=LATTICE_SELECTORS)
        else:
            cnt, viols = judge_message(b, bound, variants)
        return {'cnt': cnt, 'viols': viols, 'bytes': b, 'outcome': (len(subs[0].labels), len(subs[0].links), env['compressed'], cnt['paths'])}
    return body


def run_freeform(args):
    """free-form programs (mc.gen.freeform) x data patterns: every existing path of whatever the decoder read, evaluated
    over the message's own nested JSON"""
    from mc.gen import freeform as F
    progs, patterns, envs = args
    p = Partial()
    for name, descs in progs:
        for pat in patterns:
            for nsub, comp in envs:
                b = F.build(descs, pat, nsub, comp)
                cnt, viols = judge_message(b, 1, path_cap=24, slices_last_only=True)
                if any(v[0] == 'skip' for v in viols):
                    p.n['undecodable'] += 1
                    continue
                p.n['messages'] += 1
                p.n['exec'] += cnt['queries']
                p.n['undefined_skipped'] += cnt['undefined_skipped']
                p.outcome((name.split('|')[0], nsub, comp, min(cnt['paths'], 12)))
                for sig, detail, expr in viols:
                    p.violation('%s|freeform|%s' % (sig, name.split('|')[0]),
                                {'name': name, 'descs': descs, 'pattern': pat, 'nsub': nsub, 'compressed': comp, 'expr': expr}, detail,
                                observed=b)
    p.n['nodes'] += p.n['exec'] + p.n['messages']
    p.n['edges'] += p.n['exec']
    return p


def run_cli_part(_):
    """`pybufrkit query`: text output over two files, flat (-j) and nested (-j -n) JSON output, with and without template
    compilation; what is printed must be the values the expression designates (evaluated over the nested JSON)"""
    import json
    from mc.engine.cli import run_cli
    from mc.checks.c18 import generated_message
    p = Partial()
    scratch = os.environ.get('VERIF_SCRATCH') or '/dev/shm'
    files = []
    try:
        msgs = []
        for k, (counts, comp) in enumerate((((0, 2, 1), False), ((2, 2), True))):
            fn = os.path.join(scratch, 'c16_%d_%d.bufr' % (os.getpid(), k))
            b = generated_message(counts, comp)
            with open(fn, 'wb') as f:
                f.write(b)
            files.append(fn)
            st = S.impl_decode(CC.decoder(), b)
            msgs.append(nested_td(st[2]))
        for q in ('/102000/012001', '/001001', '@[-1]/102000/002001[0]', '/102000.031001', '@[::2]/005002', '/102000/012001[-1:]',
                  '@[0]/102000/012001[::-1]'):
            selector = None
            path = q
            if q.startswith('@'):
                selector, path = q[:q.index(']') + 1], q[q.index(']') + 1:]
            from mc.ref import pathlang
            comps = pathlang.parse(q)[1]
            for cc in (None, '2'):
                exps = []
                for td in msgs:
                    exps.append(expected(td, selector, comps))
                base = ['query'] + (['--compiled-template-cache-max', cc] if cc else [])
                # text mode, both files in one invocation
                out, err, exc, code = run_cli(base + [q] + files)
                p.n['exec'] += 1
                case = {'query': q, 'mode': 'text', 'compiled': cc}
                lines = []
                for fn, ex, td in zip(files, exps, msgs):
                    lines.append(fn)
                    for i in sorted(ex[1]):
                        lines.append('###### subset %d of %d ######' % (i + 1, len(td)))
                        lines.append(','.join(repr(v) for v in _flatten(ex[1][i])))
                p.outcome(('text', cc is None, selector is None))
                if exc is not None or code not in (None, 0):
                    p.violation('cli-query-fails|text', case, 'ended with %r / exit %r: %s' % (exc, code, err[-200:]))
                elif out.split('\n')[:-1] != lines:
                    p.violation('cli-query-output|text', case, 'printed %r, expected %r' % (out.split('\n')[:-1][:8], lines[:8]))
                for mode, flags in (('flat-json', ['-j']), ('nested-json', ['-j', '-n'])):
                    for fn, ex in zip(files, exps):
                        out, err, exc, code = run_cli(base + flags + [q, fn])
                        p.n['exec'] += 1
                        case = {'query': q, 'mode': mode, 'compiled': cc, 'file': os.path.basename(fn)}
                        p.outcome((mode, cc is None, selector is None))
                        if exc is not None or code not in (None, 0):
                            p.violation('cli-query-fails|' + mode, case, 'ended with %r / exit %r: %s' % (exc, code, err[-200:]))
                            continue
                        try:
                            got = json.loads(out)
                        except ValueError:
                            p.violation('cli-query-output|' + mode, case, 'not JSON: %r' % out[:120])
                            continue
                        want = {str(i): (_flatten(v) if mode == 'flat-json' else v) for i, v in ex[1].items()}
                        if sorted(got) != sorted(want) or not all(same_nested(got[k_], want[k_]) for k_ in want):
                            p.violation('cli-query-output|' + mode, case, 'printed %r, expected %r' % (got, want))
    finally:
        for fn in files:
            if os.path.exists(fn):
                os.remove(fn)
    return p


# ------------------------------------------------------------------------------------------
# one querent object used for several queries: rejected expressions and queries that fail must leave nothing behind
HIST_BAD = ['/001001[1:', '/001001[1:x]', '@[1:/001001', '/001001[', '@[2', '/001001[0:1:2:3]', '@[1:2:', '/001001[-',
            '/001001[2', '@[0]/001001[1:3', '', '/', '001001/', '@[3]']
HIST_GOOD = ['/001001', '001001', '@[1]/001001', '/001001[0]', '@[::2]>005002', '/001001[1:]', '@[-1]/005002', '/001001[-1]',
             '/001001/001001', '/063250']


def _history_messages():
    out = []
    for comp in (False, True):
        def body(ctx, comp=comp):
            return S.build_distinct_message(ctx, [G.N7] * 3 + [G.NS], nsub=4, compressed=comp, share_structure=True)[0]
        ctx, b = tree.replay(body, [])
        out.append(CC.decoder().process(b))
    return out


def _hist_query(q, msg, expr):
    from pybufrkit.errors import QueryError, PathExprParsingError
    try:
        qr = q.query(msg, expr)
    except PathExprParsingError:
        return ('PathExprParsingError',)
    except QueryError:
        return ('QueryError',)
    except Exception as e:
        return ('exc', type(e).__name__)
    return ('ok', jsonable_result(dict((i, qr.get_values(i)) for i in qr.subset_indices())))


def jsonable_result(d):
    return repr(sorted(d.items()))


def hist_events():
    return [(0, e) for e in HIST_BAD] + [(m, e) for m in (0, 1) for e in HIST_GOOD]


def querent_goldens():
    """the answer to every event as the ONLY query its process ever made (one fresh Python process per event)"""
    import json
    import subprocess
    import sys
    from mc.engine.harness import VERIF
    procs = [subprocess.Popen([sys.executable, '-m', 'mc.checks.c16', 'golden', str(k)], cwd=VERIF, stdout=subprocess.PIPE,
                              stderr=subprocess.PIPE, text=True) for k in range(len(hist_events()))]
    out = []
    for pr in procs:
        o, e = pr.communicate(timeout=600)
        if pr.returncode != 0:
            raise RuntimeError('golden process failed: ' + e[-300:])
        out.append(json.loads(o))
    return out


def golden_main(k):
    import json
    import sys
    from pybufrkit.dataquery import DataQuerent, NodePathParser
    m, e = hist_events()[k]
    msgs = _history_messages()
    sys.stdout.write(json.dumps(list(_hist_query(DataQuerent(NodePathParser()), msgs[m], e))))
    return 0


def run_querent_histories(args):
    """all histories of exactly `length` queries (events = (message, expression), rejected expressions included) on ONE
    DataQuerent / NodePathParser; every step must answer like a fresh querent does"""
    from pybufrkit.dataquery import DataQuerent, NodePathParser
    firsts, length = args[:2]
    p = Partial()
    msgs = _history_messages()
    ev = hist_events()
    golden = {}
    for k, (m, e) in enumerate(ev):
        golden[(m, e)] = tuple(args[2][k]) if len(args) > 2 else _hist_query(DataQuerent(NodePathParser()), msgs[m], e)
        if e in HIST_BAD and golden[(m, e)][0] != 'PathExprParsingError':
            p.violation('history-golden|rejected-expression-accepted', {'expr': e, 'history': []}, '%r: %r' % (e, golden[(m, e)]))
        if e in HIST_GOOD[:8] and golden[(m, e)][0] != 'ok':
            p.violation('history-golden|query-fails', {'expr': e, 'history': []}, '%r: %r' % (e, golden[(m, e)]))
    for first in firsts:
        for rest in itertools.product(range(len(ev)), repeat=length - 1):
            h = (first,) + rest
            q = DataQuerent(NodePathParser())
            p.n['exec'] += 1
            for k, i in enumerate(h):
                m, e = ev[i]
                got = _hist_query(q, msgs[m], e)
                p.n['queries'] += 1
                if got != golden[(m, e)]:
                    prev = ev[h[k - 1]][1] if k else None
                    kind = 'after-rejected' if prev in HIST_BAD else 'after-query'
                    p.violation('history|%s|%s' % (kind, got[0]), {'history': [list(ev[j]) for j in h[:k + 1]]},
                                'query %r on message %d after %r on the same querent: %s, a fresh querent gives %s'
                                % (e, m, [ev[j][1] for j in h[:k]], str(got)[:200], str(golden[(m, e)])[:200]))
                    break
                p.outcome((i, got[0]))
    p.n['nodes'] += p.n['queries'] + 1
    p.n['edges'] += p.n['queries']
    return p


def replay_history(case):
    from pybufrkit.dataquery import DataQuerent, NodePathParser
    msgs = _history_messages()
    h = [tuple(x) for x in case['history']]
    if not h:
        p = run_querent_histories(([], 1))
        return [{'sig': v['sig'], 'detail': v['detail']} for v in p.viol if v['case'].get('expr') == case.get('expr')]
    q = DataQuerent(NodePathParser())
    got = None
    for m, e in h:
        got = _hist_query(q, msgs[m], e)
    m, e = h[-1]
    gold = tuple(querent_goldens()[hist_events().index((m, e))])
    if got != gold:
        prev = h[-2][1] if len(h) > 1 else None
        return [{'sig': 'history|%s|%s' % ('after-rejected' if prev in HIST_BAD else 'after-query', got[0]),
                 'detail': '%r vs fresh %r' % (got, gold)}]
    return []


def restore(descs, subs, compressed):
    """re-encode the given expected subsets with the other storage form"""
    B, D = S.tables_for(33)
    nsub = len(subs)
    pos = [0] * nsub

    def chooser(info):
        j = info['index']
        if compressed:
            col = []
            for s in range(nsub):
                r = subs[s].raws[j]
                col.append(r)
            return col
        return subs[info['subset']].raws[j]
    buf, subs2, notes, nb = codec.encode(B, D, descs, nsub, compressed, chooser)
    return message.build(message.Spec(descs=descs, nsub=nsub, compressed=compressed), buf)[0]


def run_items(args):
    items, env, bound = args
    p = Partial()
    st = tree.Stats()
    for item in items:
        def on_leaf(ctx, res, item=item):
            if 'skip' in res:
                p.n['envelope_skipped'] += 1
                return
            p.n['exec'] += res['cnt']['queries']
            p.n['messages'] += 1
            p.n['undefined_skipped'] += res['cnt']['undefined_skipped']
            p.outcome(res['outcome'])
            for sig, detail, expr in res['viols']:
                if sig == 'skip':
                    p.n['undecodable'] += 1
                    continue
                p.violation('%s|%s' % (sig, item[0].split('|')[0] if item[2] is not None else 'G'),
                            {'item': list(item), 'env': env, 'bound': bound, 'choices': ctx.vector(), 'expr': expr}, detail,
                            observed=res['bytes'])
            if not res['viols'] and p.n['messages'] % 300 == 1:
                p.sample({'template': item[0], 'descs': item[1], 'env': env, 'queries': res['cnt']['queries']})
        tree.explore(msg_body(item, env, bound), 0, on_leaf, st)
    p.n['nodes'] += st.nodes + p.n['exec']
    p.n['edges'] += st.edges + p.n['exec']
    return p


def run_corpus(args):
    msgs, cap = args
    p = Partial()
    for name, k, m in msgs:
        cnt, viols = judge_message(m, 1, path_cap=cap, slices_last_only=True)
        p.n['exec'] += cnt['queries']
        p.n['messages'] += 1
        p.n['undefined_skipped'] += cnt['undefined_skipped']
        pm = message.parse(m)
        p.outcome((tuple(pm.descs[:3]), pm.compressed, cnt['paths'] > 50))
        for sig, detail, expr in viols:
            if sig == 'skip':
                p.n['undecodable'] += 1
                continue
            p.violation(sig + '|corpus', {'file': name, 'index': k, 'expr': expr, 'cap': cap}, detail)
    p.n['nodes'] += p.n['exec'] + 1
    p.n['edges'] += p.n['exec']
    return p


def replay(part, case):
    if part == 'querent-histories':
        return replay_history(case)
    if part == 'cli':
        p = run_cli_part(None)
        return [{'sig': v['sig'], 'detail': v['detail']} for v in p.viol if v['case'] == case]
    if part == 'freeform':
        from mc.gen import freeform as F
        cnt, viols = judge_message(F.build(case['descs'], case['pattern'], case['nsub'], case['compressed']), 1, path_cap=24,
                                   slices_last_only=True)
        return [{'sig': '%s|freeform|%s' % (s_, case['name'].split('|')[0]), 'detail': d} for s_, d, e in viols
                if e == case['expr'] and s_ != 'skip']
    if part == 'corpus':
        from mc.gen.corpus import TESTS, scan
        m = scan(open(os.path.join(TESTS, case['file']), 'rb').read())[case['index']]
        cnt, viols = judge_message(m, 1, path_cap=case.get('cap'), slices_last_only=True)
    else:
        it = case['item']
        queues = [[tuple(x) for x in q] for q in it[2]] if it[2] is not None else None
        ctx, res = tree.replay(msg_body((it[0], it[1], queues, it[3]), case['env'], case['bound']), case['choices'])
        viols = res.get('viols', [])
    return [{'sig': s, 'detail': d} for s, d, e in viols if e == case['expr'] and s != 'skip']


def main(tier, seed):
    rep = Report(PID, tier, seed)
    rep.rule = ('one execution = one query; per message: every existing id-path x (no slice | one (two) sliced steps from 8 '
                'slices | 4 subset selectors) + absent ids + bare ids of ordinary elements, each also against the compiled '
                'decode and the other storage form; messages = choice tree over templates with all replication counts')
    rep.trusted_base = ['mc.ref.nested.evaluate / mc.ref.pathlang.apply_slice (documented semantics A.7) over the '
                        'implementation\'s nested JSON, whose correctness is C07 / C09']
    rep.assumptions = ['paths on which the documented semantics define no value (a child step on a value node, an attribute '
                       'step on a node without attributes, a valueless last node) are skipped and counted as undefined_skipped',
                       'descendant (>) steps are only judged for bare ids of ordinary elements',
                       'an out-of-range integer subset selector is outside the statement']
    bound = 1 if tier == 'quick' else 2
    gpool = [(n, d, None, ()) for n, d in CC.template_pool(tier, k=1, c=1, nested=True, small_sigma=(tier == 'quick'))]
    L = 0 if tier == 'quick' else 1
    bpool = list(BM.chain1(L + 1)) + (list(BM.chain2(L)) if tier == 'thorough' else list(BM.chain2(0))[::5])
    plan = [('G-u2', gpool, dict(nsub=2, compressed=False)), ('G-c2', gpool, dict(nsub=2, compressed=True)),
            ('bitmap-u1', bpool, dict(nsub=1, compressed=False)),
            ('bitmap-c2', bpool if tier == 'thorough' else list(BM.chain1(0)), dict(nsub=2, compressed=True))]
    plan.append(('bitmap-u2-diff', list(BM.chain1(L, 2)), dict(nsub=2, compressed=False, vmap=[0, 1])))
    # three bitmapped elements, bit patterns that differ between the subsets but have the same number of zero bits:
    # the flat descriptor lists of the subsets are then identical while the attributes hang on different elements, and
    # some element carries the attribute in every subset (so the attribute query is defined for all of them)
    same_zero = [st for st in BM.chain1(1, 2) if st[0].startswith('b3|') and '.direct.3.' in st[0] and st[0].endswith('.fixed')
                 and len({pt.count('0') for pt in st[0].split('.')[3].split('/')}) == 1]
    plan.append(('bitmap-u2-same-zero-count', same_zero, dict(nsub=2, compressed=False, vmap=[0, 1])))
    plan.append(('bitmap-u3-diff', list(BM.chain1(0, 2)), dict(nsub=3, compressed=False, vmap=[1, 0, 1])))
    plan.append(('nested-delayed-u2', list(BM.nested_delayed(2, 2, 1, 2, colliding_only=(tier == 'quick'))),
                 dict(nsub=2, compressed=False, vmap=[0, 1])))
    plan.append(('bitmap-in-replication', list(BM.wrapped(BM.chain1(0), 2, True)), dict(nsub=1, compressed=False)))
    # the whole slice lattice (start, stop in {-6..6}, step in {1, 2, -1, -2}, integers -6..6) at every single step and as
    # subset selector, over templates with five siblings of one id (more matches than any early exit would keep)
    lat = [('lattice|siblings', [G.N7] * 5 + [G.NS], None, ()),
           ('lattice|in-fixed-replication', [104002] + [G.N7] * 4, None, ()),
           ('lattice|associated', [204002, G.M21] + [G.N7] * 4 + [204000, G.NS], None, ())]
    plan.append(('slice-lattice-u4', lat, dict(nsub=4, compressed=False, lattice=True)))
    plan.append(('slice-lattice-c4', lat, dict(nsub=4, compressed=True, lattice=True)))
    if tier == 'thorough':
        plan.append(('G-u3', gpool, dict(nsub=3, compressed=False)))
    for name, items, env in plan:
        shards = split(items, 64)
        k = seed % len(shards)
        p = merge_all(run_shards(run_items, [(s, env, bound) for s in shards[k:] + shards[:k]]))
        rep.add_part(name, p, bounds=dict(items=len(items), slice_deviations=bound,
                                          slices=len(LATTICE if env.get('lattice') else SLICES) - 1,
                                          selectors=len(LATTICE_SELECTORS if env.get('lattice') else SELECTORS) - 1, **env))
    ev = hist_events()
    hl = 3 if tier == 'quick' else 4
    qgold = querent_goldens()
    p = merge_all(run_shards(run_querent_histories, [([i], hl, qgold) for i in range(len(ev))]))
    rep.add_part('querent-histories', p, bounds={'events': len(ev), 'history_length': hl, 'rejected_expressions': HIST_BAD,
                                                  'queries': HIST_GOOD, 'messages': ['4 subsets uncompressed', '4 subsets compressed']},
                 rule='every history of queries on one DataQuerent(NodePathParser()) object; each step is compared with the '
                      'answer of a fresh querent')
    from mc.gen import freeform as F
    if tier == 'quick':
        progs = F.operator_programs(3, 2) + F.focused_programs(4, 2) + F.marker_programs(3, 2)
        pats, envs = [0, 3], [(1, False), (2, True)]
    else:
        progs = F.operator_programs(4, 2) + F.focused_programs(5, 3) + F.marker_programs(4, 3) + F.marker_programs(3, 2, base='B')
        pats, envs = [0, 2, 3, 5], [(1, False), (2, False), (2, True)]
    p = merge_all(run_shards(run_freeform, [(s_, pats, envs) for s_ in split(progs, 128)]))
    rep.add_part('freeform', p, bounds={'programs': len(progs), 'patterns': [F.PATTERNS[i][0] for i in pats], 'envelopes': envs,
                                        'paths_per_message_cap': 24, 'slices_on': 'last step',
                                        'grammar': 'mc.gen.freeform (outside the reference envelope; nested JSON is the base)'})
    msgs = list(corpus.messages(max_bytes=3000 if tier == 'quick' else 40000))
    cap = 40 if tier == 'quick' else 400
    p = merge_all(run_shards(run_corpus, [(s, cap) for s in split(msgs, 128)]))
    rep.add_part('corpus', p, bounds={'messages': len(msgs), 'paths_per_message_cap': cap, 'slices_on': 'last step'},
                 caps_hit=[] , extra={'note': 'corpus messages are visited with the first %d id-paths each' % cap})
    p = run_cli_part(None)
    p.n['nodes'], p.n['edges'] = p.n['exec'] + 1, p.n['exec']
    rep.add_part('cli', p, bounds={'invocations': p.n['exec'], 'modes': ['text (two files)', '-j', '-j -n'],
                                   'compiled_template_cache_max': [None, 2]})
    return rep.finish()


if __name__ == '__main__':
    import sys
    if len(sys.argv) > 2 and sys.argv[1] == 'golden':
        sys.exit(golden_main(int(sys.argv[2])))
