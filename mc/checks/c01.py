"""
C01 -- decoding yields exactly the values FM-94 assigns to the bit stream.

Messages are produced by the reference encoder (mc.ref.codec) from (template,
raw values): the expected labels / values / links are known by construction.
Parts:
  tree-*     E1 over the template grammar G with deviation-bounded field values, for
             several envelopes (subsets x compression x edition).
  bitmap-*   bitmap chains: two constructs (all operator pairs 222/223/224/225/232, direct / reused / recalled bitmaps,
             235000 / 237255 between them) and constructs inside a replication that runs twice within a subset.
  opmodel    E2: BFS to fixpoint over the operator-register model (abstract state = the
             reference interpreter's register record); every transition is executed on
             the real decoder followed by a probe suffix.
  tableB     every distinct element definition of every bundled Table B version x
             boundary raws x operator contexts; operand sweeps of 201..208.
  corpus     every message of the sample corpus: implementation vs reference decoder.
"""
import contextlib
import io

from mc.checks import codec_common as CC
from mc.engine.harness import Partial, Report, merge_all
from mc.engine.pool import run_shards, split
from mc.gen import corpus
from mc.gen import scenario as S
from mc.ref import codec, message, tables
from mc.ref.bits import BitBuf
from mc.ref.compare import same_value

PID = 'C01'


# ------------------------------------------------------------------------------------------
# tableB sweep: one-element templates, no choice tree (flat product)
CONTEXTS = [('plain', [], []), ('201+3', [201131], [201000]), ('201-1', [201127], [201000]),
            ('202+2', [202130], [202000]), ('202-1', [202127], [202000]), ('207.1', [207001], [207000])]


def tableb_definitions():
    """distinct (version, id) representatives keyed by (id, unit, scale, ref, width)"""
    seen = {}
    for v in tables.master_versions():
        B, D = tables.load(v)
        for d, row in sorted(B.items()):
            key = (d,) + row[1:]
            if key not in seen:
                seen[key] = (v, None, d)
    for loc in tables.local_dirs():
        # local tables are used together with master version 13 in the corpus
        try:
            B, D = tables.load(13, loc)
        except (IOError, OSError):
            continue
        B0, _ = tables.load(13)
        for d, row in sorted(B.items()):
            if B0.get(d) == row:
                continue
            key = (d,) + row[1:]
            if key not in seen:
                seen[key] = (13, loc, d)
    return sorted(seen.values(), key=lambda t: (t[0], t[1] or (), t[2]))


def sweep_case(case):
    """case = [version, local, descs, raws(list or None->missing), nsub, compressed] -> (outcome, viol)"""
    version, local, descs, raws, nsub, compressed = case
    B, D = tables.load(version, tuple(local) if local else None)
    it = iter(raws)

    def chooser(info):
        r = next(it)
        return [r] * nsub if compressed else r
    try:
        buf, subs, notes, nb = codec.encode(B, D, descs, nsub, compressed, chooser)
    except (codec.RefError, ValueError) as e:
        return ('ref-error',), None
    if notes:
        return ('envelope',), None
    meta = {'master_table_version': version}
    if local:
        meta.update({'originating_centre': local[0], 'originating_subcentre': local[1],
                     'local_table_version': local[2]})
    spec = message.Spec(edition=4, meta=meta, descs=descs, nsub=nsub, compressed=compressed)
    b, info = message.build(spec, buf)
    st = S.impl_decode(CC.decoder(), b)
    if st[0] == 'exc':
        return ('exc', st[1]), ('decode-raises:' + st[1], 'decoding raised %s: %s' % (st[1], st[2][:200]))
    d = S.compare_subsets(st[1], subs)
    kinds = tuple(m[0] for m in subs[0].meta)
    return (kinds, tuple(v is None for v in subs[0].values), compressed), d


def sweep_cases(tier):
    cases = []
    defs = tableb_definitions()
    for version, local, d in defs:
        B, D = tables.load(version, local)
        name, unit, scale, ref, w = B[d]
        k = tables.kind_of(unit)
        if k == 'str':
            for raw in (b'A' * (w // 8), None, b' ' * (w // 8)):
                cases.append([version, local, [d], [raw], 1, False])
            continue
        # numeric elements change under 201/202/207; code and flag tables must NOT (FM-94 201/202/207 notes);
        # class 31 and qualified code tables are kept out of operator scopes (envelope)
        ctxs = CONTEXTS if k in ('num', 'code') and (d // 1000) % 100 != 31 else CONTEXTS[:1]
        for cname, pre, post in ctxs:
            we = w
            if k == 'num':
                we = w + {'201+3': 3, '201-1': -1, '207.1': 4}.get(cname, 0)
            if we < 1 or we > 64:
                continue
            raws = sorted({0, 1 if we > 1 else 0, 1 << (we - 1), (1 << we) - 2 if we > 1 else 0}) + [None]
            if we == 1:
                raws = [0, 1]
            for raw in raws:
                cases.append([version, local, pre + [d] + post, [raw], 1, False])
            if cname == 'plain' or tier == 'thorough':
                cases.append([version, local, pre + [d] + post, [raws[0]], 2, True])
    # operand sweeps on the alphabet elements (version 33)
    for y in range(1, 256):
        for d, w in ((1001, 7), (5002, 15)):
            we = w + y - 128
            if 1 <= we:
                for raw in (0, (1 << we) - 2 if we > 1 else 1, None if we > 1 else 0):
                    cases.append([33, None, [201000 + y, d, 201000], [raw], 1, False])
        cases.append([33, None, [202000 + y, 5002, 202000], [4321], 1, False])
    for y in range(1, 10):
        for raw in (0, 12345, None):
            cases.append([33, None, [207000 + y, 5002, 207000], [raw], 1, False])
    for y in range(2, 33):
        mag = (1 << (y - 1)) - 1
        for rv in sorted({0, 1, -1, mag, -mag}):
            cases.append([33, None, [203000 + y, 5002, 203255, 5002, 203000, 5002], [rv, 777, 777], 1, False])
            cases.append([33, None, [203000 + y, 5002, 203255, 5002], [rv, 777], 2, True])
    for y in list(range(1, 17)) + [31, 32, 33, 63, 64, 65, 100, 128, 255]:
        for raw in (0, (1 << y) - 1, 1):
            cases.append([33, None, [204000 + y, 31021, 1001, 204000, 1001], [1, raw if (y == 1 or raw != (1 << y) - 1) else None, 5, 6], 1, False])
    for y in range(1, 21):
        cases.append([33, None, [205000 + y], [b'x' * y], 1, False])
        cases.append([33, None, [208000 + y, 1011, 208000, 1011], [b'y' * y, b'z' * 9], 1, False])
        cases.append([33, None, [208000 + y, 1011], [b'y' * y], 2, True])
    for y in range(1, 256):
        for raw in (0, 1 if y > 1 else 0, None if y > 1 else 1, (1 << y) - 2 if y > 1 else 0):
            cases.append([33, None, [206000 + y, 54001, 1001], [raw, 3], 1, False])
            cases.append([33, None, [206000 + y, 1002, 1001], [raw, 3], 1, False])
    return cases, len(defs)


def run_sweep(cases):
    p = Partial()
    for case in cases:
        outcome, d = sweep_case(case)
        p.n['exec'] += 1
        if outcome[0] in ('ref-error', 'envelope'):
            p.n['envelope_skipped'] += 1
            continue
        p.outcome(outcome)
        if d:
            B, D = tables.load(case[0], tuple(case[1]) if case[1] else None)
            units = sorted({B[x][1] for x in case[2] if x in B})
            p.violation('%s|sweep|%s' % (d[0], ','.join(units)), case, d[1])
    return p


# ------------------------------------------------------------------------------------------
# corpus
def run_corpus(msgs):
    p = Partial()
    dec = CC.decoder()
    for name, k, m in msgs:
        p.n['exec'] += 1
        st = S.impl_decode(dec, m, wire_template_data=False)
        if st[0] == 'exc':
            p.hist['impl-' + st[1]] += 1
            p.n['undecodable'] += 1
            continue
        msg = st[2]
        pm = message.parse(m)
        key = msg.table_group_key
        B, D = tables.load_sn(key.wmo_tables_sn, key.local_tables_sn)
        try:
            subs, notes, pos = codec.decode(B, D, pm.descs, pm.nsub, pm.compressed, pm.data)
        except Exception as e:
            p.violation('corpus-ref-error', {'file': name, 'index': k}, 'reference decoder failed: %r' % e)
            continue
        d = S.compare_subsets(st[1], subs)
        p.outcome((tuple(pm.descs[:6]), pm.compressed, pm.edition))
        if d:
            p.violation('%s|corpus' % d[0], {'file': name, 'index': k}, d[1])
    return p


def replay_corpus(case):
    from mc.gen.corpus import TESTS, scan
    import os
    s = open(os.path.join(TESTS, case['file']), 'rb').read()
    m = scan(s)[case['index']]
    p = run_corpus([(case['file'], case['index'], m)])
    return [{'sig': v['sig'], 'detail': v['detail']} for v in p.viol]


# ------------------------------------------------------------------------------------------
def run_bitmap(args):
    """decode-only over bitmap chains (two constructs, possibly different marker operators on the same elements)"""
    from mc.engine import tree
    structs, env = args
    p = Partial()
    st = tree.Stats()
    for name, descs, queues, free in structs:
        def body(ctx, descs=descs, queues=queues, free=free):
            try:
                b, spec, subs, notes = S.build_struct_message(ctx, descs, queues, free, nsub=env['nsub'],
                                                              compressed=env['compressed'], variant_of_subset=[0] * env['nsub'])
            except codec.RefError:
                return {'skip': 1}
            if notes:
                return {'skip': 1}
            stt = S.impl_decode(CC.decoder(), b)
            if stt[0] == 'exc':
                return {'viol': ('decode-raises:' + stt[1], stt[2][:160]), 'bytes': b, 'n': len(subs[0].links)}
            return {'viol': S.compare_subsets(stt[1], subs), 'bytes': b, 'n': len(subs[0].links)}

        def on_leaf(ctx, res, name=name, descs=descs, queues=queues, free=free):
            p.n['exec'] += 1
            if 'skip' in res:
                p.n['envelope_skipped'] += 1
                return
            p.outcome((name.split('|')[0], res['n'], env['compressed']))
            if res['viol']:
                parts = name.split('|')
                p.violation('%s|bitmap|%s' % (res['viol'][0], '|'.join(x.split('.')[0] for x in parts[1:] if x)),
                            {'struct': [name, descs, queues, free], 'env': env, 'choices': ctx.vector()}, res['viol'][1],
                            observed=res['bytes'])
        tree.explore(body, 0, on_leaf, st)
    p.n['nodes'] += st.nodes
    p.n['edges'] += st.edges
    return p


# ------------------------------------------------------------------------------------------
# large structures: replication counts across the 8-bit boundary of 031001 / into the 16-bit range of 031002, the largest
# fixed repeat count, nested loops, hundreds of subsets, widest fields -- sizes at which a one-octet or recursion-depth
# assumption in the walker would show
def large_cases(tier):
    """(name, descriptor list, counts for the delayed factors in order (cycled), number of subsets, compressed)"""
    out = []
    for c in (127, 128, 254):
        out.append(('delayed8-%d' % c, [101000, 31001, 1001], [c], 1, False))
        out.append(('delayed8-%d-c2' % c, [102000, 31001, 1001, 2001], [c], 2, True))
    for c in (255, 256, 257, 1000) + ((4097,) if tier == 'thorough' else ()):
        out.append(('delayed16-%d' % c, [101000, 31002, 1001], [c], 1, False))
        out.append(('delayed16-%d-c2' % c, [102000, 31002, 1001, 2001], [c], 2, True))
    out.append(('fixed-255', [101255, 1001, 2001], [], 1, False))
    out.append(('fixed-255-c2', [102255, 1001, 5002], [], 2, True))
    out.append(('nested-16x16', [104000, 31001, 1001, 101000, 31001, 2001], [16] * 17, 1, False))
    out.append(('nested-16x16-c2', [104000, 31001, 1001, 101000, 31001, 2001], [16] * 17, 2, True))
    for depth in (20,) + ((62,) if tier == 'thorough' else ()):
        out.append(('deep-%d' % depth, [100000 + x * 1000 + 1 for x in range(depth, 0, -1)] + [1001], [], 1, False))
        out.append(('deep-%d-c2' % depth, [100000 + x * 1000 + 1 for x in range(depth, 0, -1)] + [1001], [], 2, True))
    out.append(('bitmap-100', [101100, 1001, 222000, 236000, 101000, 31002, 31031, 101100, 33007], [100], 1, False))
    out.append(('wide', [201000 + 128 + 57, 1001, 201000, 205255, 206064, 54001, 208255, 1011, 208000], [], 1, False))
    out.append(('wide-c2', [201000 + 128 + 57, 1001, 201000, 205255, 206064, 54001], [], 2, True))
    for ns in (255, 256, 300) + ((1025,) if tier == 'thorough' else ()):
        out.append(('subsets-%d-u' % ns, [1001, 101000, 31001, 2001, 5002], 'by-subset', ns, False))
        out.append(('subsets-%d-c' % ns, [1001, 101000, 31001, 2001, 5002], [2], ns, True))
    return out


def large_build(case):
    from mc.ref import message
    name, descs, counts, nsub, comp = case
    B, D = S.tables_for(33)
    k = [0]

    def chooser(info):
        role = info.get('role')
        if role == 'factor':
            if counts == 'by-subset':
                v = info['subset'] % 4
            else:
                v = counts[k[0] % len(counts)]
                k[0] += 1
            return [v] * nsub if comp else v
        if role == 'bit':
            return [0] * nsub if comp else 0
        w = info['width']
        if comp and info['kind'] == 'str' and w > 63 * 8:
            return [S.distinct_raw(info, 0, w)] * nsub      # character increments are counted in a 6-bit field: <= 63 octets
        if comp:
            return [S.distinct_raw(info, s_, w) for s_ in range(nsub)]
        return S.distinct_raw(info, info['subset'], w)
    buf, subs, notes, nb = codec.encode(B, D, descs, nsub, comp, chooser)
    spec = message.Spec(edition=4, descs=descs, nsub=nsub, compressed=comp)
    b, info = message.build(spec, buf)
    return b, spec, subs, notes


def run_large(cases):
    p = Partial()
    for case in cases:
        p.n['exec'] += 1
        try:
            b, spec, subs, notes = large_build(case)
        except (codec.RefError, ValueError) as e:
            p.n['envelope_skipped'] += 1
            p.hist['ref:' + str(e)[:50]] += 1
            continue
        if notes:
            p.n['envelope_skipped'] += 1
            p.hist['envelope:' + notes[0][:50]] += 1
            continue
        for which, dec in (('plain', CC.decoder()), ('compiled', CC.compiled_decoder())):
            st = S.impl_decode(dec, b, wire_template_data=(len(subs[0].labels) * len(subs) < 6000))
            p.outcome((case[0].split('-')[0], which, case[4], st[0]))
            if st[0] == 'exc':
                p.violation('large|decode-raises:%s|%s' % (st[1], case[0].split('-')[0]), {'case': list(case), 'decoder': which}, st[2][:200])
                continue
            d = S.compare_subsets(st[1], subs)
            if d:
                p.violation('large|%s|%s' % (d[0], case[0].split('-')[0]), {'case': list(case), 'decoder': which}, d[1])
    p.n['nodes'], p.n['edges'] = p.n['exec'] + 1, p.n['exec']
    return p


# ------------------------------------------------------------------------------------------
# 221YYY spans over elements and pure state operators: every descriptor takes one place in the span, whatever its kind
DNP_TOKENS = [1001, 12001, 10, 201130, 201000, 202129, 202000, 208002, 208000, 5002]


def dnp_cases(tier):
    """(YYY, descriptors after 221YYY): every sequence of <= 3 (4) tokens followed by two elements outside classes 1-9"""
    import itertools
    out = []
    L = 3 if tier == 'quick' else 4
    for n in range(1, L + 1):
        for body in itertools.product(DNP_TOKENS, repeat=n):
            if not any(t // 100000 == 2 for t in body):
                continue                    # spans of plain elements are in the template grammar
            for y in range(1, n + 2):
                out.append((y, list(body)))
    return out


def dnp_build(case, nsub=1, comp=False):
    from mc.ref import message
    y, body = case
    descs = [1001, 221000 + y] + body + [12001, 10, 1002]
    B, D = S.tables_for(33)

    def chooser(info):
        w = info['width']
        if comp:
            return [S.distinct_raw(info, s_, w) for s_ in range(nsub)]
        return S.distinct_raw(info, info['subset'], w)
    buf, subs, notes, nb = codec.encode(B, D, descs, nsub, comp, chooser)
    spec = message.Spec(edition=4, descs=descs, nsub=nsub, compressed=comp)
    return message.build(spec, buf)[0], spec, subs, notes


def run_dnp(cases):
    p = Partial()
    for case in cases:
        for nsub, comp in ((1, False), (2, True)):
            p.n['exec'] += 1
            try:
                b, spec, subs, notes = dnp_build(case, nsub, comp)
            except (codec.RefError, ValueError):
                p.n['envelope_skipped'] += 1
                continue
            if notes:
                p.n['envelope_skipped'] += 1
                continue
            for which, dec in (('plain', CC.decoder()), ('compiled', CC.compiled_decoder())):
                st = S.impl_decode(dec, b, wire_template_data=False)
                d = ('decode-raises:' + st[1], st[2][:160]) if st[0] == 'exc' else S.compare_subsets(st[1], subs)
                p.outcome((case[0], len(case[1]), comp, which, len(subs[0].labels)))
                if d:
                    p.violation('dnp-span|%s|%s' % (d[0], which), {'case': [case[0], case[1]], 'nsub': nsub, 'compressed': comp, 'decoder': which},
                                '221%03d %s: %s' % (case[0], case[1], d[1]), observed=b)
    p.n['nodes'], p.n['edges'] = p.n['exec'] + 1, p.n['exec']
    return p


# ------------------------------------------------------------------------------------------
# delayed REPETITION (1XX000 followed by 031011 / 031012): the data are present ONCE and stand for N copies.  The library
# does not implement repetition; what it must not do is read N copies from the data section as if it were a replication.
def run_repetition(_):
    from mc.ref import message
    from mc.ref.bits import BitBuf
    from pybufrkit.errors import PyBufrKitError
    p = Partial()
    for factor, fw in ((31011, 8), (31012, 16)):
        for count in (0, 1, 3):
            for comp, nsub in ((False, 1), (False, 2), (True, 2)):
                descs = [101000, factor, 1001, 1002]
                bb = BitBuf()
                for s_ in range(1 if comp else nsub):
                    for v, w in ((count, fw), (5, 7), (77, 10)):
                        bb.put(v, w)
                        if comp:
                            bb.put(0, 6)
                for _ in range(8):
                    bb.put(0, 8)              # room: a wrong reading must not be rescued by running out of data
                b = message.build(message.Spec(descs=descs, nsub=nsub, compressed=comp), bb)[0]
                want = [count] + [5] * count + [77]
                for which, dec in (('plain', CC.decoder()), ('compiled', CC.compiled_decoder())):
                    p.n['exec'] += 1
                    try:
                        import contextlib, io
                        with contextlib.redirect_stderr(io.StringIO()):
                            m = dec.process(b, wire_template_data=False)
                        got = [list(v) for v in m.template_data.value.decoded_values_all_subsets]
                        out = 'ok'
                    except PyBufrKitError:
                        out, got = 'refused', None
                    except Exception as e:
                        out, got = type(e).__name__, None
                    p.outcome((factor, count, comp, which, out))
                    if out == 'refused' or (out == 'ok' and all(g in (want, [count, 5, 77]) for g in got)):
                        continue
                    p.violation('repetition|%s|%s' % ('wrong-values' if out == 'ok' else out, which),
                                {'descs': descs, 'count': count, 'nsub': nsub, 'compressed': comp, 'decoder': which},
                                '1 01 000 %06d 001001 001002 with count %d: %s %r; FM-94: the repeated data are present once (%r), or the '
                                'library refuses the descriptor' % (factor, count, out, got, want), observed=b)
    p.n['nodes'], p.n['edges'] = p.n['exec'] + 1, p.n['exec']
    return p


def replay(part, case):
    if part.startswith('bitmap'):
        s_ = case['struct']
        p = run_bitmap(([(s_[0], s_[1], [[tuple(x) for x in q] for q in s_[2]], s_[3])], case['env']))
        return [{'sig': v['sig'], 'detail': v['detail']} for v in p.viol if v['case']['choices'] == case['choices']]
    if part.startswith('tree'):
        return CC.replay_tree(case)
    if part == 'repetition':
        p = run_repetition(None)
        return [{'sig': v['sig'], 'detail': v['detail']} for v in p.viol
                if all(v['case'][k_] == case[k_] for k_ in ('descs', 'count', 'nsub', 'compressed', 'decoder'))]
    if part == 'dnp-spans':
        p = run_dnp([(case['case'][0], case['case'][1])])
        return [{'sig': v['sig'], 'detail': v['detail']} for v in p.viol
                if v['case']['decoder'] == case['decoder'] and v['case']['compressed'] == case['compressed']]
    if part == 'large':
        p = run_large([tuple(case['case'])])
        return [{'sig': v['sig'], 'detail': v['detail']} for v in p.viol if v['case']['decoder'] == case['decoder']]
    if part == 'tableB':
        outcome, d = sweep_case(case)
        return [{'sig': d[0], 'detail': d[1]}] if d else []
    if part == 'corpus':
        return replay_corpus(case)
    if part == 'opmodel':
        from mc.checks import opmodel
        return opmodel.replay(case, 'decode')
    raise ValueError(part)


def tree_parts(tier):
    """(part name, pool args, env, bound)"""
    if tier == 'quick':
        return [
            ('tree-u1', dict(k=1, c=1, nested=True), dict(nsub=1, compressed=False), 2),
            ('tree-c2', dict(k=1, c=1, nested=True), dict(nsub=2, compressed=True), 2),
            ('tree-u1-k2', dict(k=2, c=1), dict(nsub=1, compressed=False), 0),
            ('tree-c2-k2', dict(k=2, c=1), dict(nsub=2, compressed=True), 0),
            ('tree-u2', dict(k=1, c=1, nested=True), dict(nsub=2, compressed=False), 0),
            ('tree-c1', dict(k=1, c=1, nested=True), dict(nsub=1, compressed=True), 0),
            ('tree-c3', dict(k=1, c=1), dict(nsub=3, compressed=True, nbinc=True), 1),
            ('tree-ed2', dict(k=1, c=1), dict(nsub=1, compressed=False, edition=2, sec2=b'\x01'), 0),
            ('tree-ed3', dict(k=1, c=1), dict(nsub=2, compressed=True, edition=3), 0),
        ]
    return [
        ('tree-u1', dict(k=2, c=1, nested=True, small_sigma=False), dict(nsub=1, compressed=False, thorough=True), 1),
        ('tree-c2', dict(k=2, c=1, nested=True, small_sigma=False), dict(nsub=2, compressed=True, thorough=True), 1),
        ('tree-u1-d2', dict(k=2, c=1), dict(nsub=1, compressed=False), 2),
        ('tree-c2-d2', dict(k=2, c=1), dict(nsub=2, compressed=True), 2),
        ('tree-u2', dict(k=2, c=1, nested=True), dict(nsub=2, compressed=False), 1),
        ('tree-c1', dict(k=2, c=1, nested=True), dict(nsub=1, compressed=True), 1),
        ('tree-c3', dict(k=2, c=1), dict(nsub=3, compressed=True, nbinc=True), 1),
        ('tree-k2c2', dict(k=2, c=2), dict(nsub=1, compressed=False), 0),
        ('tree-k2c2c', dict(k=2, c=2), dict(nsub=2, compressed=True), 0),
        ('tree-k3', dict(k=3, c=1), dict(nsub=1, compressed=False), 0),
        ('tree-ed2', dict(k=1, c=1, nested=True), dict(nsub=1, compressed=False, edition=2, sec2=b'\x01'), 1),
        ('tree-ed3', dict(k=1, c=1, nested=True), dict(nsub=2, compressed=True, edition=3), 1),
    ]


def main(tier, seed):
    rep = Report(PID, tier, seed)
    rep.rule = ('tree: every template of G(k,c) x every choice vector within the deviation bound (nodes/edges of the '
                'choice tree); an outcome class is (field kinds, item count, missing pattern, compression, subsets); '
                'tableB: flat product definition x raw x context; opmodel: abstract states of the operator-register '
                'model, every (state, event) transition run on the real decoder with a probe')
    rep.trusted_base = ['mc.ref.codec / mc.ref.message (reference model R; validated by hand vectors and by agreement '
                        'with the implementation on the 1100+ real sample messages in selftest)']
    rep.assumptions = ['envelope of DESIGN 2.4: class 31 or qualified code tables inside 201/202/207, nested 204, 221 '
                       'covering non-elements, markers under 204 are not generated (counted as envelope_skipped)',
                       'floats compare within 4 ulp of the correctly rounded (raw+ref)/10^scale; int/float type is not judged']
    for name, pargs, env, bound in tree_parts(tier):
        pool = CC.template_pool(tier, **pargs)
        shards = split(pool, 64)
        k = seed % len(shards)
        shards = shards[k:] + shards[:k]
        p = merge_all(run_shards(CC.run_tree, [(s, env, bound, 'decode') for s in shards]))
        rep.add_part(name, p, bounds=dict(pargs, templates=len(pool), deviations=bound, **{k2: (v.hex() if isinstance(v, bytes) else v) for k2, v in env.items()}))

    from mc.gen import bitmaps as BM
    bstructs = list(BM.chain2(0 if tier == 'quick' else 1)) + list(BM.wrapped(BM.chain1(0), 2, True))
    for bname, env in (('bitmap-u1', dict(nsub=1, compressed=False)), ('bitmap-c2', dict(nsub=2, compressed=True))):
        use = bstructs if (tier == 'thorough' or bname == 'bitmap-u1') else bstructs[::4]
        p = merge_all(run_shards(run_bitmap, [(s_, env) for s_ in split(use, 64)]))
        rep.add_part(bname, p, bounds=dict(structures=len(use), **env))

    rep.add_part('repetition', run_repetition(None), bounds={'factors': [31011, 31012], 'counts': [0, 1, 3],
                                                             'envelopes': ['1 subset', '2 subsets', '2 compressed'], 'decoders': 2},
                 rule='delayed repetition: the decode gives the FM-94 reading (data present once) or the library error; reading N '
                      'copies from the data section is a violation')
    dc = dnp_cases(tier)
    p = merge_all(run_shards(run_dnp, split(dc, 64)))
    rep.add_part('dnp-spans', p, bounds={'cases': len(dc), 'tokens': DNP_TOKENS, 'max_span_content': 3 if tier == 'quick' else 4},
                 rule='221YYY followed by every sequence of elements and pure state operators (201 / 202 / 208 open and cancel), YYY from '
                      '1 to one more than the sequence, then elements outside classes 1-9; 1 subset and 2 compressed; plain and compiled')
    lc = large_cases(tier)
    p = merge_all(run_shards(run_large, [[c] for c in lc]))
    rep.add_part('large', p, bounds={'cases': [c[0] for c in lc]},
                 rule='replication counts 127..257 / 1000 (4097), fixed repeat 255, nested 16 x 16, a 100-bit bitmap, 64-bit and '
                      '255-octet fields, 255..300 (1025) subsets with per-subset counts; plain and compiled decoder')

    from mc.checks import opmodel
    p, info = opmodel.explore('decode', tier)
    rep.add_part('opmodel', p, bounds=info, rule='BFS to fixpoint over reference register states')

    cases, ndefs = sweep_cases(tier)
    p = merge_all(run_shards(run_sweep, split(cases, 64)))
    p.n['nodes'], p.n['edges'] = len(cases) + 1, len(cases)
    p.sample(cases[0]); p.sample(cases[len(cases) // 2]); p.sample(cases[-1])
    rep.add_part('tableB', p, bounds={'distinct_definitions': ndefs, 'cases': len(cases)})

    maxb = 6000 if tier == 'quick' else None
    msgs = list(corpus.messages(max_bytes=maxb))
    p = merge_all(run_shards(run_corpus, split(msgs, 64)))
    p.n['nodes'], p.n['edges'] = len(msgs) + 1, len(msgs)
    p.sample({'file': msgs[0][0], 'index': msgs[0][1]})
    rep.add_part('corpus', p, bounds={'messages': len(msgs), 'max_bytes': maxb})
    return rep.finish()
