"""
C11 -- a byte stream is split into exactly the messages it contains.

Streams  s0 m1 s1 ... mj sj  over a pool of 8 messages (editions 2/3/4, compressed or not, data categories
0/2/11(no subsets), payloads holding the octet-aligned bytes 'BUFR' and '7777' in the data section and in
section 2) and 9 separators (empty, GTS header, binary noise, partial signatures B / BU / BUF / BUFBUF,
'7777', 'RBUF'):
  j <= 1 (thorough: j <= 2): the FULL product of messages and separators;
  j = 2 (quick), 3, 4: every message tuple with separators as environment answers (default = empty), at most d non-empty
           (E1 deviation bound).
Every stream is scanned in full and in metadata-only mode, without and with each of 5 filter expressions.
Oracle: the cut points are known by construction; the filter is judged on the metadata the reference
builder wrote.  The split and count commands are driven in-process on all streams with j <= 1 and on the
j = 2 streams without separators.
"""
import contextlib
import io
import itertools
import os

from mc.engine import tree
from mc.engine.harness import Partial, Report, merge_all
from mc.engine.pool import run_shards, split
from mc.gen import scenario as S
from mc.ref import codec, message

PID = 'C11'

SEPARATORS = [b'', b'\r\r\n001\r\r\nIUSK73 AMMC 040000\r\r\n', b'\x00\xff\x10', b'B', b'BU', b'BUF', b'BUFBUF', b'7777', b'RBUF']

FILTERS = [
    (None, lambda m: True),
    ('${%data_category} == 2', lambda m: m['data_category'] == 2),
    ('${%n_subsets} > 1', lambda m: m['n_subsets'] > 1),
    ('${%edition} == 3', lambda m: m['edition'] == 3),
    ('${%edition} == 4 and ${%data_category} != 11', lambda m: m['edition'] == 4 and m['data_category'] != 11),
    ('${%is_compressed} or ${%2.section_length} is not None', lambda m: m['compressed'] or m['sec2']),
]

# the SHAPE of the filter expression: where in the expression the embedded metadata queries sit (nested scopes of the
# expression included), operators, whitespace inside ${ }, the same query used twice, names of several sections
FILTER_SHAPES = [
    ('any(${%data_category} == c for c in (2, 7))', lambda m: m['data_category'] in (2, 7)),
    ('(lambda: ${%n_subsets} > 1)()', lambda m: m['n_subsets'] > 1),
    ('[e for e in (3,) if e == ${%edition}]', lambda m: m['edition'] == 3),
    ('all(x >= 0 for x in (${%n_subsets}, ${%data_category})) and ${%edition} != 2', lambda m: m['edition'] != 2),
    ('len([d for d in ${%unexpanded_descriptors} if d // 1000 == 1 + 0 * ${%n_subsets}]) > 0',
     lambda m: any(d // 1000 == 1 for d in m['descs'])),
    ('sorted(${%unexpanded_descriptors}, key=lambda d: abs(d - ${%edition}))[0] == 1001', lambda m: min(m['descs']) == 1001 and 1001 in m['descs']),
    ('${ %edition } in (2, 3)', lambda m: m['edition'] in (2, 3)),
    ('not ${%is_compressed}', lambda m: not m['compressed']),
    ('${%n_subsets} * ${%n_subsets} == 4', lambda m: m['n_subsets'] == 2),
    ('(${%edition} == 4) if ${%n_subsets} else False', lambda m: m['edition'] == 4 and m['n_subsets'] > 0),
    ('${%3.section_length} == 7 + 2 * len(${%unexpanded_descriptors})', lambda m: m['edition'] == 4),
    ('${%0.edition} + ${%1.data_category} > 5', lambda m: m['edition'] + m['data_category'] > 5),
    ('True', lambda m: True),
    ('False', lambda m: False),
    ('0', lambda m: False),
    ('"${%edition}" != ""', lambda m: True),
]

_POOL = None


def pool():
    """[(name, bytes, facts)]"""
    global _POOL
    if _POOL is not None:
        return _POOL
    B, D = S.tables_for(33)
    defs = [
        ('ed4-plain', 4, None, [1001, 5002], 1, False, 2, None),
        ('ed3-comp2', 3, None, [1001, 5002, 10], 2, True, 2, None),
        ('ed2-BUFR-in-data', 2, None, [205004, 205004, 1001], 1, False, 0, [b'BUFR', b'7777', 5]),
        ('ed4-BUFR-in-sec2', 4, b'BUFR7777BUFR', [1001], 1, False, 2, None),
        ('ed4-cat0-3sub', 4, None, [101002, 2001, 1001], 3, False, 0, None),
        ('ed4-cat11-nosub', 4, None, [1001], 0, False, 11, None),
        ('ed3-sec2-BUFR-data', 3, b'\x07', [205008, 2001], 2, False, 2, [b'xxBUFR\x00\x00', 1, b'7777BUFR', 2]),
    ]
    # a complete valid message, octet aligned, inside the data section of another one
    from mc.ref.bits import BitBuf
    bb = BitBuf()
    bb.put(5, 7)
    inner = message.build(message.Spec(descs=[1001], nsub=1), bb)[0]
    defs.append(('ed4-message-in-data', 4, None, [205000 + len(inner)], 1, False, 2, [inner]))
    out = []
    for name, ed, s2, descs, nsub, comp, cat, vals in defs:
        it = iter(vals or [])
        cnt = [0]

        def chooser(info):
            cnt[0] += 1
            if vals:
                v = next(it)
            elif info['kind'] == 'str':
                v = b'Q' * (info['width'] // 8)
            else:
                v = (cnt[0] * 3) % ((1 << info['width']) - 1)
            if comp:
                return [v] * nsub if not isinstance(v, int) else [min(v + k, (1 << info['width']) - 2) for k in range(nsub)]
            return v
        buf, subs, notes, nb = codec.encode(B, D, descs, nsub, comp, chooser)
        spec = message.Spec(edition=ed, meta={'data_category': cat}, sec2=s2, descs=descs, nsub=nsub, compressed=comp)
        b, info = message.build(spec, buf)
        if name.endswith('in-data'):
            assert b'BUFR' in b[8:-4] and b'7777' in b[8:-4], name
        out.append((name, b, {'edition': ed, 'data_category': cat, 'n_subsets': nsub, 'compressed': comp,
                              'sec2': s2 is not None, 'nvalues': [len(s.values) for s in subs], 'descs': list(descs)}))
    _POOL = out
    return out


_dec = None


def decoder():
    global _dec
    if _dec is None:
        from pybufrkit.decoder import Decoder
        _dec = Decoder()
    return _dec


def scan(stream, info_only, filter_expr):
    from pybufrkit.decoder import generate_bufr_message
    with contextlib.redirect_stderr(io.StringIO()):
        out = []
        for m in generate_bufr_message(decoder(), stream, info_only=info_only, filter_expr=filter_expr,
                                       wire_template_data=False):
            nv = None
            if not info_only:
                td = m.template_data.value
                nv = [len(v) for v in td.decoded_values_all_subsets]
            out.append((m.serialized_bytes, nv))
        return out


def judge_stream(msgs, seps, p, case_of, FILTERS=None):
    """msgs: indexes into the pool; seps: len(msgs)+1 separator indexes"""
    P = pool()
    stream = SEPARATORS[seps[0]]
    for k, mi in enumerate(msgs):
        stream += P[mi][1] + SEPARATORS[seps[k + 1]]
    if FILTERS is None:
        FILTERS = globals()['FILTERS']
    for info_only in (False, True):
        for fi, (expr, pred) in enumerate(FILTERS):
            p.n['exec'] += 1
            want = [P[mi] for mi in msgs if pred(P[mi][2])]
            try:
                got = scan(stream, info_only, expr)
            except Exception as e:
                p.violation('scan-raises:%s|%s|%s' % (type(e).__name__, 'info' if info_only else 'full', 'filter' if expr else 'nofilter'),
                            case_of(info_only, fi), '%r' % (e,), observed=stream)
                continue
            p.outcome((len(msgs), len(want), info_only, fi, tuple(sorted(set(seps)))[:3]))
            if expr is None:
                # the same stream handed over as a bytearray (a mutable byte string): the same messages, the same bytes
                try:
                    got_ba = [(bytes(g[0]), g[1]) for g in scan(bytearray(stream), info_only, expr)]
                except Exception as e:
                    got_ba = 'raises %r' % (e,)
                if got_ba != [(bytes(g[0]), g[1]) for g in got]:
                    p.violation('bytearray-stream|%s' % ('info' if info_only else 'full'), case_of(info_only, fi),
                                'the stream given as bytearray: %s' % (got_ba if isinstance(got_ba, str) else [len(g[0]) for g in got_ba]),
                                observed=stream)
            if [g[0] for g in got] != [w[1] for w in want]:
                p.violation('messages|%s|%s' % ('info' if info_only else 'full', 'filter' if expr else 'nofilter'),
                            case_of(info_only, fi),
                            'stream of %s with separators %r, filter %r: yielded %d messages of lengths %r, expected %r (%s)'
                            % ([P[mi][0] for mi in msgs], [SEPARATORS[s] for s in seps], expr, len(got),
                               [len(g[0]) for g in got], [len(w[1]) for w in want], [w[0] for w in want]),
                            observed=stream)
            elif not info_only and [g[1] for g in got] != [w[2]['nvalues'] for w in want]:
                p.violation('decoded-shape|full', case_of(info_only, fi), 'value counts %r, expected %r'
                            % ([g[1] for g in got], [w[2]['nvalues'] for w in want]), observed=stream)


def sized_message(L):
    """a valid edition-4 message (data category 2, one subset of 205YYY character fields) of exactly L octets"""
    from mc.ref.bits import BitBuf
    k = 1
    while L - 45 - 2 * k > 255 * k:
        k += 1
    D = L - 45 - 2 * k
    assert D >= k, L
    sizes = [D // k + (1 if i < D % k else 0) for i in range(k)]
    bb = BitBuf()
    for n in sizes:
        for j in range(n):
            bb.put(0x61 + (j % 26), 8)
    b = message.build(message.Spec(edition=4, meta={'data_category': 2}, descs=[205000 + n for n in sizes], nsub=1), bb)[0]
    assert len(b) == L, (len(b), L)
    return b, len(sizes)


def length_values(tier):
    """total lengths whose low octet takes every value 0..255, whose middle octet takes every value 1..255 (quick: the
    control characters, 0x42 'B', 0x37 '7', 0x7f, 0x80, 0xff), plus lengths with special values in both"""
    lows = list(range(64, 64 + 256))
    mids = range(1, 256) if tier == 'thorough' else [1, 2, 9, 10, 11, 12, 13, 26, 27, 32, 0x37, 0x42, 0x7f, 0x80, 0xff]
    both = [0x0a0a, 0x0d0a, 0x0a0d, 0x4255, 0x3737, 0x0100, 0x0a00, 0xff0a, 0xffff]
    return lows + [m * 256 + 0x45 for m in mids] + both + ([0x010000, 0x010a0a, 0x0a0000 + 77] if tier == 'thorough' else [0x010000 + 10])


def run_lengths(Ls):
    """[A, M_L, A] for every length L: the scan must deliver all three, with their exact bytes, in both modes, with and
    without a filter that holds for M_L only"""
    p = Partial()
    A = pool()[0][1]
    for L in Ls:
        m, nfields = sized_message(L)
        stream = A + m + b'\r\n' + A
        p.n['nodes'] += 1
        for info_only in (False, True):
            for expr, want in ((None, [A, m, A]), ('${%data_category} == 2 and ${%length} == ' + str(L), [m])):
                p.n['exec'] += 1
                p.n['edges'] += 1
                case = {'length': L, 'info_only': info_only, 'filter': expr}
                try:
                    got = scan(stream, info_only, expr)
                except Exception as e:
                    p.violation('scan-raises:%s|%s|length-bytes' % (type(e).__name__, 'info' if info_only else 'full'), case, repr(e))
                    continue
                p.outcome((L >> 16, min((L >> 8) & 255, 16), min(L & 255, 16), info_only, expr is None))
                if [g[0] for g in got] != want:
                    p.violation('messages|%s|length-bytes' % ('info' if info_only else 'full'), case,
                                'a message of %d octets (length octets %s) between two others: yielded lengths %r, expected %r'
                                % (L, L.to_bytes(3, 'big').hex(), [len(g[0]) for g in got], [len(w) for w in want]))
                elif not info_only and expr is None and got[1][1] != [nfields]:
                    p.violation('decoded-shape|full|length-bytes', case, 'value counts %r, expected %r' % (got[1][1], [nfields]))
    return p


def run_product(args):
    """full product for a list of message tuples: every separator assignment"""
    tuples = args
    p = Partial()
    ns = len(SEPARATORS)
    for msgs in tuples:
        for seps in itertools.product(range(ns), repeat=len(msgs) + 1):
            judge_stream(msgs, seps, p, lambda io, fi, msgs=msgs, seps=seps: {'msgs': list(msgs), 'seps': list(seps),
                                                                             'info_only': io, 'filter': fi})
            p.n['nodes'] += 1
    p.n['edges'] = p.n['nodes']
    return p


def run_shapes(tuples):
    """every filter-expression shape over streams of one and two messages (separators: none / a GTS heading)"""
    p = Partial()
    for msgs in tuples:
        for sep in (0, 1):
            seps = [sep] * (len(msgs) + 1)
            judge_stream(msgs, seps, p, lambda io, fi, msgs=msgs, seps=seps: {'msgs': list(msgs), 'seps': list(seps), 'info_only': io,
                                                                             'filter': fi, 'shapes': True}, FILTER_SHAPES)
            p.n['nodes'] += 1
    p.n['edges'] = p.n['nodes']
    return p


def run_tree(args):
    """message tuples with separators as D-choices (default empty), deviation bound"""
    tuples, bound = args
    p = Partial()
    st = tree.Stats()
    ns = len(SEPARATORS)
    for msgs in tuples:
        def body(ctx, msgs=msgs):
            seps = [ctx.pick('sep%d' % k, ns, 'D') for k in range(len(msgs) + 1)]
            judge_stream(msgs, seps, p, lambda io, fi: {'msgs': list(msgs), 'seps': list(seps), 'info_only': io, 'filter': fi})
            return None
        tree.explore(body, bound, lambda ctx, res: None, st)
    p.n['nodes'] += st.nodes
    p.n['edges'] += st.edges
    return p


def run_cli(tuples):
    from mc.engine.cli import run_cli as cli
    p = Partial()
    P = pool()
    scratch = os.environ.get('VERIF_SCRATCH') or '/dev/shm'
    d = os.path.join(scratch, 'c11_%d' % os.getpid())
    os.makedirs(d, exist_ok=True)
    fn = os.path.join(d, 's.bufr')
    try:
        for msgs, seps in tuples:
            stream = SEPARATORS[seps[0]]
            for k, mi in enumerate(msgs):
                stream += P[mi][1] + SEPARATORS[seps[k + 1]]
            for f in os.listdir(d):
                os.remove(os.path.join(d, f))
            with open(fn, 'wb') as f:
                f.write(stream)
            case = {'msgs': list(msgs), 'seps': list(seps)}
            p.n['exec'] += 2
            out, err, exc, code = cli(['split', fn])
            if exc is not None:
                p.violation('split-traceback:' + type(exc).__name__, case, repr(exc), observed=stream)
                continue
            pieces = []
            k = 0
            while os.path.exists('%s.%d' % (fn, k)):
                pieces.append(open('%s.%d' % (fn, k), 'rb').read())
                k += 1
            names = [l.strip() for l in out.splitlines() if l.strip()]
            p.outcome(('split', len(msgs), len(pieces)))
            if pieces != [P[mi][1] for mi in msgs] or names != ['%s.%d' % (fn, i) for i in range(len(msgs))]:
                p.violation('split-pieces', case, 'split wrote %r bytes, expected %r' % ([len(x) for x in pieces],
                                                                                       [len(P[mi][1]) for mi in msgs]), observed=stream)
            if b''.join(pieces) != b''.join(P[mi][1] for mi in msgs):
                p.violation('split-concat', case, 'concatenated pieces differ from the concatenated messages', observed=stream)
            out, err, exc, code = cli(['info', '--count-only', fn])
            if exc is not None:
                p.violation('count-traceback:' + type(exc).__name__, case, repr(exc), observed=stream)
                continue
            p.outcome(('count', out.strip().rsplit(' ', 1)[-1]))
            if out.strip() != '%s: %d' % (fn, len(msgs)):
                p.violation('count', case, 'info --count-only printed %r for %d messages' % (out.strip(), len(msgs)), observed=stream)
    finally:
        for f in os.listdir(d):
            os.remove(os.path.join(d, f))
        os.rmdir(d)
    return p


def replay(part, case):
    p = Partial()
    if part == 'length-bytes':
        p = run_lengths([case['length']])
        return [{'sig': v['sig'], 'detail': v['detail']} for v in p.viol
                if v['case']['info_only'] == case['info_only'] and v['case']['filter'] == case['filter']]
    if part == 'cli':
        p = run_cli([(case['msgs'], case['seps'])])
    else:
        if case.get('shapes'):
            judge_stream(case['msgs'], case['seps'], p, lambda io, fi: {'msgs': case['msgs'], 'seps': case['seps'],
                                                                      'info_only': io, 'filter': fi, 'shapes': True}, FILTER_SHAPES)
        else:
            judge_stream(case['msgs'], case['seps'], p, lambda io, fi: {'msgs': case['msgs'], 'seps': case['seps'],
                                                                      'info_only': io, 'filter': fi})
        p.viol = [v for v in p.viol if v['case'].get('info_only') == case.get('info_only') and v['case'].get('filter') == case.get('filter')]
    return [{'sig': v['sig'], 'detail': v['detail']} for v in p.viol]


def main(tier, seed):
    rep = Report(PID, tier, seed)
    rep.rule = ('a stream = message tuple x separator tuple; each is scanned in 2 modes x 6 filters (executions); outcome '
                'class = (messages, expected yielded, mode, filter, separators used)')
    rep.trusted_base = ['cut points and metadata are known by construction (mc.ref.message builds every message)']
    rep.assumptions = ['separators do not contain the start signature (statement); category-11 messages have 0 subsets '
                       '(table-definition messages are C20\'s subject)', 'filters are expressions over metadata only']
    nm = len(pool())
    idx = list(range(nm))
    for j in ((0, 1) if tier == 'quick' else (0, 1, 2)):
        tuples = list(itertools.product(idx, repeat=j))
        k = seed % max(1, len(tuples))
        tuples = tuples[k:] + tuples[:k]
        p = merge_all(run_shards(run_product, split(tuples, 64)))
        rep.add_part('product-j%d' % j, p, bounds={'messages_in_stream': j, 'pool': nm, 'separators': len(SEPARATORS),
                                                   'modes': 2, 'filters': len(FILTERS), 'streams': len(tuples) * len(SEPARATORS) ** (j + 1)})
    plan = [(2, 2), (3, 1)] if tier == 'quick' else [(3, 2), (4, 1)]
    for j, bound in plan:
        tuples = list(itertools.product(idx, repeat=j))
        p = merge_all(run_shards(run_tree, [(s, bound) for s in split(tuples, 64)]))
        rep.add_part('tree-j%d-d%d' % (j, bound), p, bounds={'messages_in_stream': j, 'deviations': bound,
                                                             'message_tuples': len(tuples)})
    tuples = [(m,) for m in idx] + list(itertools.product(idx, repeat=2)) + ([] if tier == 'quick' else list(itertools.product(idx, repeat=3)))
    p = merge_all(run_shards(run_shapes, split(tuples, 64)))
    rep.add_part('filter-shapes', p, bounds={'expressions': [e for e, _ in FILTER_SHAPES], 'message_tuples': len(tuples),
                                             'separators': 2, 'modes': 2},
                 rule='one execution = one scan with one filter expression; the expressions vary WHERE the embedded metadata queries '
                      'sit (generator expression, lambda, comprehension, conditional, call argument, string literal)')
    Ls = length_values(tier)
    p = merge_all(run_shards(run_lengths, split(Ls, 64)))
    rep.add_part('length-bytes', p, bounds={'lengths': len(Ls), 'low_octet': 'every value 0..255',
                                            'middle_octet': 'every value 1..255' if tier == 'thorough' else 'control characters and signature bytes',
                                            'stream': '[A, M_L, CR LF, A]', 'modes': 2, 'filters': 2})
    cl = [((), (s,)) for s in range(len(SEPARATORS))]
    cl += [((m,), (a, b)) for m in idx for a in range(len(SEPARATORS)) for b in range(len(SEPARATORS))]
    cl += [((m1, m2), (0, s, 0)) for m1 in idx for m2 in idx for s in (0, 5, 7)]
    p = merge_all(run_shards(run_cli, split(cl, 32)))
    p.n['nodes'], p.n['edges'] = p.n['exec'] + 1, p.n['exec']
    rep.add_part('cli', p, bounds={'streams': len(cl), 'commands': ['split', 'info --count-only']})
    return rep.finish()
