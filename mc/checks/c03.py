"""
C03 -- decode/encode round trip: quantisation bound, range refusal, canonical fixpoint.

Parts (complete lattices, no sampling):
  lattice   every numeric element definition x operator context {plain, 201+3, 201-1, 202+2, 202-1, 207.1}
            x raw r in {-1, 0, 1, 2^w-3, 2^w-2, 2^w-1, 2^w, 2^w+1} x fractional offset
            delta in {0, +1/4, +1/2-1/64, +1/2, -1/4, -1/2+1/64} (delta = 0 only where the effective scale is 0):
            user value v = nearest float to (r + delta + ref)/10^scale; encoded uncompressed (1 subset) and
            compressed (2 subsets, the other value in range) and decoded again.
            quick: the alphabet elements + wide / signed-reference elements + a 1/8 slice (by VERIF_SEED) of
            all bundled Table B definitions; thorough: every definition.
  strings   every length 0..w+2 and None for 1..3-octet and 9-octet character fields.
  fixpoint  every generated message (template pool x value deviations) and every sample-corpus message:
            b1 = E(render(D(b))), b2 = E(render(D(b1)))  =>  b2 == b1 and D(b1) == D(b) exactly.
Oracle: outcome is an error or a decoded value d with |d - v| <= 1/2 * 10^-scale (+ float slack), or d is None
and the rounded scaled integer is the all-ones pattern; uncompressed and every admissible rounding of v*10^scale - ref
outside 0..2^w-1 => MUST be an error.
"""
import contextlib
import io
import math
from fractions import Fraction

from mc.checks import codec_common as CC
from mc.checks import c01
from mc.engine import tree
from mc.engine.harness import Partial, Report, merge_all
from mc.engine.pool import run_shards, split
from mc.gen import corpus
from mc.gen import scenario as S
from mc.ref import codec, message, tables

PID = 'C03'

DELTAS = [Fraction(0), Fraction(1, 4), Fraction(1, 2) - Fraction(1, 64), Fraction(1, 2), Fraction(-1, 4),
          Fraction(-1, 2) + Fraction(1, 64)]
CTX = [('plain', [], [], 0, 0, 0), ('201+3', [201131], [201000], 3, 0, 0), ('201-1', [201127], [201000], -1, 0, 0),
       ('202+2', [202130], [202000], 0, 2, 0), ('202-1', [202127], [202000], 0, -1, 0),
       ('207.1', [207001], [207000], 4, 1, 1)]


def contexts_for(B, d):
    """(name, descs, effective width, scale, reference) for a numeric element"""
    name, unit, scale, ref, w = B[d]
    out = []
    for cname, pre, post, dw, ds, y207 in CTX:
        we = w + dw
        if we < 1 or we > 40:
            continue          # beyond ~50 bits float arithmetic cannot hold the scaled integer (outside the quantifier)
        out.append((cname, pre + [d] + post, we, scale + ds, ref * 10 ** y207))
    return out


def lattice_points(w, scale):
    raws = sorted({-1, 0, 1, (1 << w) - 3, (1 << w) - 2, (1 << w) - 1, 1 << w, (1 << w) + 1})
    deltas = DELTAS if scale != 0 else DELTAS[:1]
    for r in raws:
        for dl in deltas:
            yield r, dl


def typed_points(w, scale, ref):
    """(raw, offset label, user value): the lattice as floats (ints where the effective scale is 0), plus the values a user
    may supply as Python / JSON INTEGERS: for a negative scale every integer between the grid points is a legitimate input
    (off-grid by 1/4, 1/2 - 1, 1/2 (tie) of a unit, both directions); for a positive scale the integral lattice values
    given as int instead of float"""
    for r, dl in lattice_points(w, scale):
        v = user_value(r, dl, ref, scale)
        yield r, dl, v
        if scale > 0 and isinstance(v, float) and v.is_integer() and abs(v) < 2 ** 52:
            yield r, 'int:%s' % dl, int(v)
    if scale < 0:
        unit = 10 ** (-scale)
        offs = sorted({0, unit // 4, unit // 2 - 1, unit // 2, -(unit // 4), -(unit // 2 - 1), 1, -1})
        raws = sorted({-1, 0, 1, (1 << w) - 3, (1 << w) - 2, (1 << w) - 1, 1 << w, (1 << w) + 1})
        for r in raws:
            for o in offs:
                if abs(o) * 2 > unit:
                    continue
                yield r, 'int%+d/%d' % (o, unit), (r + ref) * unit + o


def user_value(r, dl, ref, scale):
    x = (Fraction(r) + dl + ref) / (Fraction(10) ** scale)
    if scale == 0:
        return int(x)
    return float(x)


def admissible_roundings(v, ref, scale):
    """scaled integers a correct encoder may arrive at for the float v (ties and the float's own error)"""
    x = Fraction(v) * Fraction(10) ** scale
    fl = math.floor(x)
    frac = x - fl
    if abs(frac - Fraction(1, 2)) < Fraction(1, 1000):
        c = {fl, fl + 1}
    else:
        c = {fl if frac < Fraction(1, 2) else fl + 1}
    return {k - ref for k in c}


def encode_decode(version, local, descs, values_all_subsets, compressed):
    """-> ('error', type) | ('ok', decoded values of every subset)"""
    meta = {'master_table_version': version}
    if local:
        meta.update({'originating_centre': local[0], 'originating_subcentre': local[1], 'local_table_version': local[2]})
    spec = message.Spec(edition=4, meta=meta, descs=descs, nsub=len(values_all_subsets), compressed=compressed)
    fj = message.flat_json(spec, values_all_subsets)
    with contextlib.redirect_stderr(io.StringIO()):
        try:
            m = CC.encoder().process(fj, wire_template_data=False)
        except Exception as e:
            return ('error', type(e).__name__)
        try:
            m2 = CC.decoder().process(m.serialized_bytes, wire_template_data=False)
        except Exception as e:
            return ('undecodable', type(e).__name__ + ': ' + str(e)[:80])
    return ('ok', [list(v) for v in m2.template_data.value.decoded_values_all_subsets])


def quantisation_fixpoint(version, local, descs, v):
    """a compressed column of two values that differ below the precision of the element (v and the next float): the message
    the encoder writes must be reproduced when its own decode is encoded again -> None or (sig, detail)"""
    meta = {'master_table_version': version}
    if local:
        meta.update({'originating_centre': local[0], 'originating_subcentre': local[1], 'local_table_version': local[2]})
    spec = message.Spec(edition=4, meta=meta, descs=descs, nsub=2, compressed=True)
    vj = math.nextafter(v, math.inf)
    with contextlib.redirect_stderr(io.StringIO()):
        try:
            b1 = CC.encoder().process(message.flat_json(spec, [[v], [vj]]), wire_template_data=False).serialized_bytes
            m = CC.decoder().process(b1, wire_template_data=False)
            vals = [list(x) for x in m.template_data.value.decoded_values_all_subsets]
            b2 = CC.encoder().process(message.flat_json(spec, vals), wire_template_data=False).serialized_bytes
        except Exception as e:
            return None          # refusals are judged by the lattice itself
    if b1 != b2:
        return ('fixpoint-after-quantisation', 'values %r and %r (one raw value) encode to %s; the decode of that, %r, encodes to %s'
                % (v, vj, b1.hex()[-24:], vals, b2.hex()[-24:]))
    return None


def judge_point(v, d, w, scale, ref, must_refuse_possible):
    """-> None or (sig, detail) for one decoded value d of user value v"""
    cands = admissible_roundings(v, ref, scale)
    if d is None:
        if (1 << w) - 1 in cands and w > 1:
            return None
        return 'silently-missing', 'value %r reads back as missing although its scaled integer %r is not the all-ones pattern' % (v, sorted(cands))
    half = Fraction(1, 2) / (Fraction(10) ** scale)
    err = abs(Fraction(d) - Fraction(v))
    slack = half * Fraction(1, 10 ** 9) + 4 * Fraction(math.ulp(max(abs(float(v)), abs(float(d)), 1e-300)))
    if err <= half + slack:
        return None
    return 'altered', 'value %r reads back as %r: off by %.6g, half a unit is %.6g' % (v, d, float(err), float(half))


def run_lattice(defs):
    p = Partial()
    for version, local, d in defs:
        B, D = tables.load(version, tuple(local) if local else None)
        for cname, descs, w, scale, ref in contexts_for(B, d):
            inr = max(0, min((1 << w) - 2, 1))
            v_other = user_value(inr, Fraction(0), ref, scale)
            if scale > 0 and w > 2:
                vq = user_value(1, Fraction(0), ref, scale)
                p.n['exec'] += 1
                q = quantisation_fixpoint(version, local, descs, vq)
                if q:
                    p.violation('%s|%s' % (q[0], cname), {'version': version, 'local': local, 'descs': descs, 'value': vq, 'raw': 1,
                                                          'delta': 'jitter', 'compressed': True, 'pre': False}, '%06d: %s' % (d, q[1]))
            for r, dl, v in typed_points(w, scale, ref):
                cands = admissible_roundings(v, ref, scale)
                must_refuse = all(c < 0 or c > (1 << w) - 1 for c in cands)
                # 'pre': the field does not start on an octet boundary and the bits in front of it are not all zero (a 7-bit
                # element holding 0b1010101 first) -- for the points at and beyond the ends of the range, uncompressed
                variants = [(False, False), (True, False)]
                if dl in (DELTAS[0], 'int+0/%d' % (10 ** -scale if scale < 0 else 1)) and (r <= 0 or r >= (1 << w) - 2):
                    variants.append((False, True))
                for comp, pre in variants:
                    p.n['exec'] += 1
                    vals = [[v], [v_other]] if comp else [[v]]
                    if pre:
                        res = encode_decode(version, local, [1001] + descs, [[85, v]], False)
                        if res[0] == 'ok':
                            if res[1][0][0] != 85:
                                p.violation('neighbour-altered|%s' % cname, {'version': version, 'local': local, 'descs': descs,
                                                                             'value': v, 'raw': r, 'delta': str(dl), 'compressed': False, 'pre': True},
                                            '%06d: encoding the value %r changed the element in front of it: 85 reads back as %r'
                                            % (d, v, res[1][0][0]))
                                continue
                            res = ('ok', [row[1:] for row in res[1]])
                    else:
                        res = encode_decode(version, local, descs, vals, comp)
                    case = {'version': version, 'local': local, 'descs': descs, 'value': v, 'raw': r, 'delta': str(dl),
                            'compressed': comp, 'pre': pre}
                    cls = 'below' if r < 0 else ('above' if r > (1 << w) - 1 else ('ones' if r == (1 << w) - 1 else 'in'))
                    p.outcome((cname, cls, str(dl), comp, res[0]))
                    if res[0] == 'undecodable':
                        p.violation('undecodable|%s|%s' % (cname, cls), case, 'the encoder produced a message that does not decode: %s' % res[1])
                        continue
                    if res[0] == 'error':
                        p.hist['refused:' + res[1]] += 1
                        continue
                    if must_refuse and not comp:
                        p.violation('not-refused|%s|%s' % (cname, cls), case,
                                    '%06d (%d bits, scale %d, ref %d, %s): value %r has scaled integer %r outside 0..%d but was '
                                    'encoded; it reads back as %r' % (d, w, scale, ref, cname, v, sorted(cands), (1 << w) - 1, res[1][0][0]))
                        continue
                    dv = res[1][0][0]
                    j = judge_point(v, dv, w, scale, ref, must_refuse)
                    if j:
                        p.violation('%s|%s|%s|%s' % (j[0], cname, cls, 'comp' if comp else 'uncomp'), case,
                                    '%06d (%d bits, scale %d, ref %d, %s): %s' % (d, w, scale, ref, cname, j[1]))
                    if comp and not j:
                        j2 = judge_point(v_other, res[1][1][0], w, scale, ref, False)
                        if j2:
                            p.violation('other-%s|%s|%s' % (j2[0], cname, cls), case, 'the in-range companion value: ' + j2[1])
        p.n['definitions'] += 1
    return p


def numeric_definitions():
    out = []
    for version, local, d in c01.tableb_definitions():
        B, D = tables.load(version, local)
        if tables.kind_of(B[d][1]) == 'num' and (d // 1000) % 100 != 31:
            out.append((version, local, d))
    return out


ALPHABET = [(33, None, d) for d in (1004, 11106, 1001, 5002, 7002, 12101, 10004, 4001, 13011, 6002, 2121, 14016, 7004, 21036)]


# ------------------------------------------------------------------------------------------
def run_strings(_):
    p = Partial()
    fields = [([10], 1), ([208002, 10, 208000], 2), ([205003], 3), ([1011], 9), ([208004, 1011, 208000], 4)]

    def expected(v, nb):
        return None if v is None else v[:nb] + b' ' * max(0, nb - len(v))

    for descs, nb in fields:
        for n in list(range(0, nb + 3)) + [None]:
            for ch in (b'a', b' ', b'\xe9'):
                if n is None and ch != b'a':
                    continue
                v = None if n is None else (ch * n)
                # compressed: the other subsets of the column are S-choices -- full width, shorter than the field (so that
                # EVERY supplied string is short), empty, missing, equal to v (a constant column), and three subsets
                companions = [None] + [[b'Z' * nb], [b'Z' * max(0, nb - 1)], [b''], [None], [v], [b'Z' * max(0, nb - 1), b'Y']]
                for ci, comp_vals in enumerate(companions):
                    comp = comp_vals is not None
                    p.n['exec'] += 1
                    col = [v] + (comp_vals or [])
                    res = encode_decode(33, None, descs, [[x] for x in col], comp)
                    case = {'descs': descs, 'value': v, 'compressed': comp, 'column': col}
                    p.outcome((nb, n if n is None else min(n, nb + 1) - nb, ci, res[0]))
                    if res[0] == 'error':
                        p.hist['refused:' + res[1]] += 1
                        if n is None or n <= nb:
                            p.violation('string-refused', case, 'a %r-byte value for a %d-byte field was refused (%s)' % (n, nb, res[1]))
                        continue
                    if res[0] == 'undecodable':
                        p.violation('string-undecodable', case, res[1])
                        continue
                    for k, x in enumerate(col):
                        d = res[1][k][0]
                        if x is None:
                            ok = d is None or d == b'\xff' * nb
                        else:
                            ok = d == expected(x, nb)
                        if not ok:
                            p.violation('string-altered|%s' % ('comp' if comp else 'uncomp'), case,
                                        'subset %d: %r in a %d-byte field reads back as %r' % (k, x, nb, d))
                            break
    return p


# ------------------------------------------------------------------------------------------
def render_flat(msg):
    from pybufrkit.renderer import FlatJsonRenderer
    return FlatJsonRenderer().render(msg)


def fixpoint(b):
    """-> None or (sig, detail)"""
    with contextlib.redirect_stderr(io.StringIO()):
        try:
            m0 = CC.decoder().process(b, wire_template_data=False)
        except Exception as e:
            return ('skip', 'undecodable')
        try:
            m1 = CC.encoder().process(render_flat(m0), wire_template_data=False)
        except Exception as e:
            return ('skip', 'not re-encodable: %s' % type(e).__name__)
        b1 = m1.serialized_bytes
        try:
            d1 = CC.decoder().process(b1, wire_template_data=False)
        except Exception as e:
            return ('reencoded-undecodable', repr(e)[:160])
        v0 = m0.template_data.value.decoded_values_all_subsets
        v1 = d1.template_data.value.decoded_values_all_subsets
        if not _same_values(v0, v1):
            return ('roundtrip-values', 'decoded values change after one encode/decode round trip: ' + _first_diff(v0, v1))
        try:
            b2 = CC.encoder().process(render_flat(d1), wire_template_data=False).serialized_bytes
        except Exception as e:
            return ('second-encode-raises', repr(e)[:160])
    if b2 != b1:
        k = next((i for i, (x, y) in enumerate(zip(b1, b2)) if x != y), min(len(b1), len(b2)))
        return ('not-a-fixpoint', 'second round trip differs from the first at byte %d (lengths %d, %d)' % (k, len(b1), len(b2)))
    return None


def _norm(v):
    # foreign compressed character values may be shorter than the field (short increments): blank padding is the
    # documented effect of writing them again
    return v.rstrip(b' ') if isinstance(v, bytes) else v


def _same_values(a, b):
    if len(a) != len(b):
        return False
    for x, y in zip(a, b):
        if len(x) != len(y):
            return False
        for p_, q in zip(x, y):
            if p_ != q and _norm(p_) != _norm(q):
                return False
    return True


def _first_diff(a, b):
    for si, (x, y) in enumerate(zip(a, b)):
        for j, (p_, q) in enumerate(zip(x, y)):
            if p_ != q and _norm(p_) != _norm(q):
                return 'subset %d item %d: %r -> %r' % (si, j, p_, q)
    return 'shape'


def fix_body(descs, env):
    def body(ctx):
        try:
            b, spec, subs, notes = S.build_message(ctx, descs, nsub=env['nsub'], compressed=env['compressed'])
        except codec.RefError as e:
            return {'skip': 'ref:' + str(e)[:40]}
        if notes:
            return {'skip': 'envelope:' + notes[0][:40]}
        r = fixpoint(b)
        res = {'outcome': S.outcome_class(subs, env['compressed']), 'bytes': b}
        if r and r[0] == 'skip':
            return {'skip': 'fixpoint:' + r[1]}
        if r:
            res['viol'] = r
        return res
    return body


CC.FACTORIES['fixpoint'] = fix_body


def run_corpus(msgs):
    p = Partial()
    for name, k, m in msgs:
        p.n['exec'] += 1
        r = fixpoint(m)
        if r and r[0] == 'skip':
            p.hist[r[1]] += 1
            p.n['skipped'] += 1
            continue
        pm = message.parse(m)
        p.outcome((tuple(pm.descs[:4]), pm.compressed))
        if r:
            p.violation(r[0] + '|corpus', {'file': name, 'index': k}, r[1])
    return p


def replay(part, case):
    if part == 'lattice':
        p = run_lattice([(case['version'], case['local'], [d for d in case['descs'] if d // 100000 == 0][0])])
        return [{'sig': v['sig'], 'detail': v['detail']} for v in p.viol
                if v['case']['descs'] == case['descs'] and v['case']['raw'] == case['raw'] and v['case']['delta'] == case['delta']
                and v['case']['compressed'] == case['compressed'] and v['case'].get('pre', False) == case.get('pre', False)]
    if part == 'strings':
        p = run_strings(None)
        return [{'sig': v['sig'], 'detail': v['detail']} for v in p.viol
                if v['case']['descs'] == case['descs'] and v['case']['column'] == case['column'] and v['case']['compressed'] == case['compressed']]
    if part == 'fix-corpus':
        from mc.gen.corpus import TESTS, scan
        import os
        m = scan(open(os.path.join(TESTS, case['file']), 'rb').read())[case['index']]
        p = run_corpus([(case['file'], case['index'], m)])
        return [{'sig': v['sig'], 'detail': v['detail']} for v in p.viol]
    return CC.replay_tree(case)


def main(tier, seed):
    rep = Report(PID, tier, seed)
    rep.rule = ('lattice: definition x context x raw x delta x {uncompressed, compressed}; outcome class = (context, range class '
                'of the raw, delta, compression, error/ok); fixpoint: choice tree over templates and value deviations / every '
                'corpus message')
    rep.trusted_base = ['exact rational arithmetic (fractions) for the quantisation bound; mc.ref.tables for the element '
                        'definitions; mc.ref.message for the encoder input']
    rep.assumptions = ['fields wider than 40 bits after operator modification are outside the quantifier (float arithmetic)',
                       'a value within 1/1000 of a rounding tie may be rounded either way',
                       'refusing an in-range value is not a violation of this property (counted in the histogram)']
    defs = numeric_definitions()
    if tier == 'quick':
        sl = [x for i, x in enumerate(defs) if i % 8 == seed % 8]
        use = ALPHABET + [x for x in sl if x not in ALPHABET]
    else:
        use = defs
    p = merge_all(run_shards(run_lattice, split(use, 128)))
    p.n['nodes'], p.n['edges'] = p.n['exec'] + 1, p.n['exec']
    p.sample({'definitions': [list(x) for x in use[:3]]})
    rep.add_part('lattice', p, bounds={'definitions': len(use), 'all_numeric_definitions': len(defs), 'contexts': len(CTX),
                                       'raws': 8, 'deltas': len(DELTAS)},
                 extra={'note': 'quick = 14 alphabet elements + 1/8 slice (VERIF_SEED) of all definitions; thorough = all'})
    p = run_strings(None)
    p.n['nodes'], p.n['edges'] = p.n['exec'] + 1, p.n['exec']
    rep.add_part('strings', p, bounds={'fields': 5, 'lengths': '0..w+2, None', 'characters': 3, 'columns': 'uncompressed; compressed with the other subsets full width / short / empty / missing / equal / two others'})
    plan = [('fix-u1', dict(k=1, c=1, nested=True), dict(nsub=1, compressed=False), 1),
            ('fix-c2', dict(k=1, c=1, nested=True), dict(nsub=2, compressed=True), 1)]
    if tier == 'thorough':
        plan += [('fix-u2-k2', dict(k=2, c=1), dict(nsub=2, compressed=False), 1),
                 ('fix-c3-k2', dict(k=2, c=1), dict(nsub=3, compressed=True), 1)]
    for name, pargs, env, bound in plan:
        pool = CC.template_pool(tier, **pargs)
        shards = split(pool, 64)
        p = merge_all(run_shards(CC.run_tree, [(s, env, bound, 'fixpoint') for s in shards]))
        rep.add_part(name, p, bounds=dict(pargs, templates=len(pool), deviations=bound, **env))
    msgs = list(corpus.messages(max_bytes=6000 if tier == 'quick' else None))
    p = merge_all(run_shards(run_corpus, split(msgs, 64)))
    p.n['nodes'], p.n['edges'] = p.n['exec'] + 1, p.n['exec']
    p.sample({'file': msgs[0][0], 'index': msgs[0][1]})
    rep.add_part('fix-corpus', p, bounds={'messages': len(msgs)})
    return rep.finish()
