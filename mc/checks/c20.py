"""
C20 -- in-stream table definitions govern the messages that follow them.

E2-style exploration over stream histories: a history is a sequence of events from
  dA   definition message: elements e1 (numeric), e2 (characters), sequence s1 = [e1, e2]
  dB   extends: element e3 (code table), sequence s2 = [1 01 002, e1, e3], sequence s3 = [1 01 000, 031001, e2]
  dB'  REDEFINES e1 (other width / scale / reference)
  dN   NCEP idiom: 3 60 001 = [1 01 000, 031002] (replication-only: replicates what follows the sequence) and
       3 60 002 = [3 60 001, e4, 3 60 001, 001001] (the idiom used twice inside one defined sequence), the latter in a
       continuation message of its own that has no Table A and no Table B entries
  d0   a definition message with 0 subsets (defines nothing)
  xA xB xS xM xN  data messages over s1+e1 / s2+s3+e3 / standard descriptors / a mix / the NCEP idiom
concatenated into ONE byte stream and scanned by generate_bufr_message (continue_on_error) after the
process-wide table cache has been reset.  The abstract state of a history is the accumulated definitions
(what FM-94 / the property make the future depend on); ALL histories up to length 3 (thorough 4) are
executed unmerged, the state graph (canonical accumulated definitions) is reported.  Definition contents
deviate (E1 D-choices, bound d): width {12,1,7,16,24}, scale {1,-1,0,2}, reference {-1024,0,5}, unit
{NUMERIC, CODE TABLE, FLAG TABLE, CCITT IA5} of e1.
Oracle: the reference model builds every data message with tables = bundled (version 13) U definitions seen
so far (later wins) -- so the expected values are known by construction; a data message whose descriptors are
not (yet) defined must be refused (UnknownDescriptor) and skipped.
"""
import os
from mc import REPO
import contextlib
import io
import itertools

from mc.engine import tree
from mc.engine import implstate
from mc.engine.harness import Partial, Report, merge_all
from mc.engine.pool import run_shards, split
from mc.gen import scenario as S
from mc.ref import codec, message, ncep, tables

PID = 'C20'
E1, E2, E3, E4 = 48001, 48002, 63200, 52010
S1, S2, S3, SN = 348001, 348002, 348003, 360001
SN2 = 360002        # a defined sequence that uses the replication-only sequence twice

WIDTHS = [12, 1, 7, 16, 24]
SCALES = [1, -1, 0, 2]
REFS = [-1024, 0, 5]
UNITS = ['NUMERIC', 'CODE TABLE', 'FLAG TABLE', 'CCITT IA5']

EVENTS = ['dA', 'dB', "dB'", 'dN', 'd0', 'xA', 'xB', 'xS', 'xM', 'xN']


def definitions(ev, e1def):
    """(a_entries, b_entries, d_entries) of a definition event; e1def = (width, scale, ref, unit) of e1 in dA"""
    w, sc, rf, un = e1def
    if un == 'CCITT IA5':
        w = max(8, (w // 8) * 8)
    if ev in ('dA', 'dAf'):
        return ([('243', 'GFSCLS1  TABLE A ENTRY - GFSMODE', 'L MESSAGES')],
                [(E1, 'FIRST NEW ELEMENT', un, sc, rf, w), (E2, 'SECOND NEW ELEMENT (CHARACTERS)', 'CCITT IA5', 0, 0, 24)],
                [(S1, 'FIRST NEW SEQUENCE', [E1, E2])])
    if ev == 'dB':
        return ([], [(E3, 'THIRD NEW ELEMENT', 'CODE TABLE', 0, 0, 7)],
                [(S2, 'SECOND NEW SEQUENCE', [101002, E1, E3]), (S3, 'THIRD NEW SEQUENCE', [101000, 31001, E2])])
    if ev == "dB'":
        return ([], [(E1, 'FIRST NEW ELEMENT REDEFINED', 'NUMERIC', 2, 5, 16)], [])
    if ev == 'dN':
        return ([], [(E4, 'FOURTH NEW ELEMENT', 'NUMERIC', 0, -5, 9)], [(SN, 'REPLICATION ONLY', [101000, 31002])])
    if ev == 'dN+':
        # a continuation message: no Table A and no Table B entries, only a sequence over what is already defined
        return ([], [], [(SN2, 'USES IT TWICE', [SN, E4, SN, 1001])])
    if ev == 'd0':
        return ([], [(E1, 'MUST NOT BE DEFINED', 'NUMERIC', 0, 0, 3)], [])
    if ev == 'dL':
        # an id that the shipped LOCAL tables of centre 98 (versions 1, 2, 3, 101) also define (there: a 15-bit flag table)
        return ([], [(E5, 'ALSO IN A SHIPPED LOCAL TABLE', 'NUMERIC', 1, -100, 12)], [])
    raise ValueError(ev)


def definition_parts(ev, e1def):
    """the definition messages an event stands for (dN = the idiom + a continuation message without B entries)"""
    if ev == 'dN':
        return [definitions('dN', e1def), definitions('dN+', e1def)]
    return [definitions(ev, e1def)]


E5 = 49193
# data messages that select local tables (centre, sub-centre, local version) or none
DATA_LOCAL = {'xL1': ([E5, 1001], (98, 0, 1)), 'xL101': ([1001, E5], (98, 0, 101)), 'xL0': ([E5, 1001], None)}
LOCAL_EVENTS = ['dL', 'dA', 'xL1', 'xL101', 'xL0', 'xA']
# other layouts: the Table A part as a fixed replication; a category-11 message that is not a definition message at all
LAYOUT_EVENTS = ['dAf', 'dA', 'dB', 'xF', 'xA', 'xB', 'xS']
DATA = {'xA': [S1, E1], 'xB': [S2, S3, E3], 'xS': [1001, 5002, 301001], 'xM': [1001, E1, S1, 5002], 'xN': [SN, E4, 1001, SN2, E1]}


def build_stream(hist, e1def):
    """-> (stream bytes, [(event, bytes, expectation)]) expectation: 'def' | ('ok', subsets) | ('unknown',)"""
    defs = []
    items = []
    for k, ev in enumerate(hist):
        if ev[0] == 'd':
            for a, b, d in definition_parts(ev, e1def):
                if ev == 'd0':
                    m = ncep.build_definition(a, b, d, nsub=0)
                elif ev == 'dAf':
                    m = ncep.build_definition(a, b, d, fixed_a=True)
                    defs.append((b, d))
                else:
                    m = ncep.build_definition(a, b, d)
                    defs.append((b, d))
                items.append((ev, m, 'def'))
            continue
        if ev == 'xF':
            # a message of data category 11 with a subset that is NOT in the definition layout (ordinary descriptors): nothing
            # can be taken from it; it may be delivered or refused, the messages around it must not suffer
            B0, D0 = tables.load(13)
            buf0, subs0, notes0, nb0 = codec.encode(B0, D0, [1001, 1002], 1, False, lambda info: 5)
            spec0 = ncep.data_spec([1001, 1002], master_version=13)
            spec0.meta['data_category'] = 11
            items.append((ev, message.build(spec0, buf0)[0], ('maybe',)))
            continue
        local = None
        if ev in DATA_LOCAL:
            descs, local = DATA_LOCAL[ev]
        else:
            descs = DATA[ev]
        # the definitions extend EVERY table group: data messages name master version 13 or 33 by position
        version = 13 if k % 2 == 0 else 33
        B, D = tables.load(version, local)
        B, D = dict(B), dict(D)
        for b_, d_ in defs:
            B, D = ncep.apply_definitions(B, D, b_, d_)
        cnt = [0]

        def ch(info):
            cnt[0] += 1
            if info.get('role') == 'factor':
                return 2
            if info['kind'] == 'str':
                return (b'abcdefgh' * 4)[:info['width'] // 8]
            w = info['width']
            return (3 * cnt[0] + k) % ((1 << w) - 1) if w > 1 else cnt[0] % 2
        try:
            buf, subs, notes, nb = codec.encode(B, D, descs, 1, False, ch)
            exp = ('ok', subs)
            if notes:
                exp = ('envelope',)
        except codec.UnknownDescriptor:
            # data bits that walk the implementation INTO the undefined descriptor: encode with placeholder definitions
            # for everything that is not defined (so that replication counts are 2 and every body is reached)
            Bp, Dp = dict(B), dict(D)
            for e in (E1, E2, E3, E4, E5):
                Bp.setdefault(e, ('PLACEHOLDER', 'NUMERIC', 0, 0, 8))
            for q, mem in ((S1, [E1, E2]), (S2, [101002, E1, E3]), (S3, [101000, 31001, E2]), (SN, [101000, 31002]), (SN2, [SN, E4, SN, 1001])):
                Dp.setdefault(q, mem)
            cnt[0] = 0
            buf, subs, notes, nb = codec.encode(Bp, Dp, descs, 1, False, ch)
            exp = ('unknown',)
        spec = ncep.data_spec(descs, master_version=version)
        if local:
            spec.meta.update(originating_centre=local[0], originating_subcentre=local[1], local_table_version=local[2])
        items.append((ev, message.build(spec, buf)[0], exp))
    return b''.join(m for ev, m, exp in items), items


def abstract_state(hist, e1def):
    """canonical accumulated definitions after the history (what the future may depend on)"""
    B, D = {}, {}
    for ev in hist:
        if ev[0] == 'd' and ev != 'd0':
            for a, b, d in definition_parts(ev, e1def):
                for row in b:
                    B[row[0]] = row[2:]
                for row in d:
                    D[row[0]] = tuple(row[2])
    return (tuple(sorted(B.items())), tuple(sorted(D.items())))


def reset_cache():
    import pybufrkit.tables as pt
    implstate.reset_table_cache()


FILTER_NO_DEFS = '${%data_category} != 11'      # the definition messages are not wanted in the output; they still define


def scan(stream, filter_expr=None, ccmax=None):
    from pybufrkit.decoder import Decoder, generate_bufr_message
    out = []
    with contextlib.redirect_stderr(io.StringIO()):
        try:
            for m in generate_bufr_message(Decoder() if ccmax is None else Decoder(compiled_template_cache_max=ccmax), stream, continue_on_error=True, wire_template_data=False,
                                           filter_expr=filter_expr):
                td = m.template_data.value
                out.append((m.serialized_bytes, [([str(x) for x in td.decoded_descriptors_all_subsets[i]],
                                                  list(td.decoded_values_all_subsets[i]),
                                                  dict(td.bitmap_links_all_subsets[i])) for i in range(len(td.decoded_values_all_subsets))]))
        except Exception as e:
            return out, e
    return out, None


def judge(hist, e1def, filtered=False):
    """-> (outcome, None or (sig, detail)).  filtered: the stream is scanned with a filter expression that rejects the
    definition messages (data category 11): they must not be delivered and must still govern what follows"""
    stream, items = build_stream(hist, e1def)
    if any(exp == ('envelope',) for ev, m, exp in items):
        return ('envelope',), None
    reset_cache()
    try:
        got, exc = scan(stream, FILTER_NO_DEFS if filtered is True else None, 8 if filtered == 'compiled' else None)
    finally:
        reset_cache()
    outcome = (len(hist), tuple(exp[0] if exp != 'def' else 'def' for ev, m, exp in items), filtered)
    tag = '|compiled' if filtered == 'compiled' else ('|filtered' if filtered else '')
    if exc is not None:
        return outcome, ('scan-raises:' + type(exc).__name__ + tag, 'stream %r%s: %r' % (list(hist), tag, exc))
    gi = 0
    for k, (ev, m, exp) in enumerate(items):
        hit = gi < len(got) and got[gi][0] == m
        if filtered is True and exp == 'def':
            if hit:
                return outcome, ('filtered-out-delivered|%s' % ev, 'stream %r: definition message %d was delivered although the '
                                 'filter %r rejects it' % (list(hist), k, FILTER_NO_DEFS))
            continue
        if exp == ('maybe',):
            if hit:
                gi += 1
            continue
        if exp == ('unknown',):
            if hit:
                return outcome, ('undefined-decoded|%s' % ev, 'stream %r: message %d (%s) uses descriptors nothing has defined '
                                 'yet but was decoded: %r' % (list(hist), k, ev, got[gi][1][0][0][:6]))
            continue
        if not hit:
            return outcome, ('not-delivered|%s%s' % (ev, tag), 'stream %r: message %d (%s) was not delivered (yielded %d messages)'
                             % (list(hist), k, ev, len(got)))
        if exp != 'def':
            d = S.compare_subsets(got[gi][1], exp[1])
            if d:
                prior = [e for e in hist[:k] if e[0] == 'd']
                return outcome, ('%s|%s|after-%s%s' % (d[0], ev, '+'.join(prior) or 'nothing', tag),
                                 'stream %r: message %d (%s): %s' % (list(hist), k, ev, d[1]))
        gi += 1
    if gi != len(got):
        return outcome, ('extra-messages', 'stream %r: %d messages yielded, %d expected' % (list(hist), len(got), gi))
    return outcome, None


def hist_body(hist, filtered=False):
    def body(ctx):
        if 'dA' in hist:
            w = WIDTHS[ctx.pick('e1.width', len(WIDTHS), 'D')]
            sc = SCALES[ctx.pick('e1.scale', len(SCALES), 'D')]
            rf = REFS[ctx.pick('e1.ref', len(REFS), 'D')]
            un = UNITS[ctx.pick('e1.unit', len(UNITS), 'D')]
        else:
            w, sc, rf, un = WIDTHS[0], SCALES[0], REFS[0], UNITS[0]
        outcome, v = judge(hist, (w, sc, rf, un), filtered)
        return {'outcome': outcome, 'viol': v, 'e1def': (w, sc, rf, un)}
    return body


def run_hists(args):
    hists, bound = args[:2]
    filtered = len(args) > 2 and args[2]
    p = Partial()
    st = tree.Stats()
    states, trans = set(), set()
    for hist in hists:
        def on_leaf(ctx, res, hist=hist):
            p.n['exec'] += 1
            if res['outcome'] == ('envelope',):
                p.n['envelope_skipped'] += 1
                return
            p.outcome(res['outcome'])
            s0 = abstract_state(hist[:-1], res['e1def'])
            s1 = abstract_state(hist, res['e1def'])
            states.add(s1)
            trans.add((s0, hist[-1], s1))
            if res['viol']:
                p.violation(res['viol'][0], {'history': list(hist), 'choices': ctx.vector(), 'filtered': filtered}, res['viol'][1])
            elif p.n['exec'] % 500 == 1:
                p.sample({'history': list(hist), 'e1': list(res['e1def'])})
        tree.explore(hist_body(hist, filtered), bound, on_leaf, st)
    p.n['nodes'] += st.nodes
    p.n['edges'] += st.edges
    p.outcomes |= {('abstract-state', hash(s)) for s in states}
    p.n['abstract_states_seen_in_shard'] = len(states)
    p.n['abstract_transitions_seen_in_shard'] = len(trans)
    return p


def run_prepbufr(_):
    """the real NCEP file: every data message must decode to what the reference model gives with the tables defined by
    the two definition messages at its start"""
    from mc.gen.corpus import scan as cscan
    p = Partial()
    s = open(os.path.join(REPO, 'tests/data/prepbufr.bufr'), 'rb').read()
    msgs = cscan(s)
    B, D = tables.load(13)
    B, D = dict(B), dict(D)
    reset_cache()
    try:
        got, exc = scan(s)
    finally:
        reset_cache()
    if exc is not None:
        p.violation('prepbufr-scan-raises:' + type(exc).__name__, {'file': 'prepbufr.bufr'}, repr(exc))
        return p
    gi = 0
    for k, m in enumerate(msgs):
        p.n['exec'] += 1
        pm = message.parse(m)
        if gi >= len(got) or got[gi][0] != m:
            p.violation('prepbufr-not-delivered', {'file': 'prepbufr.bufr', 'index': k}, 'message %d not delivered' % k)
            continue
        if pm.meta['data_category'] == 11:
            if pm.nsub:
                subs, notes, pos = codec.decode(B, D, pm.descs, pm.nsub, pm.compressed, pm.data)
                b_rows, d_rows = rows_from_definition(subs[0].values)
                B, D = ncep.apply_definitions(B, D, b_rows, d_rows)
            gi += 1
            p.outcome(('def', pm.nsub))
            continue
        try:
            subs, notes, pos = codec.decode(B, D, pm.descs, pm.nsub, pm.compressed, pm.data)
        except Exception as e:
            p.violation('prepbufr-ref-error', {'file': 'prepbufr.bufr', 'index': k}, repr(e))
            gi += 1
            continue
        d = S.compare_subsets(got[gi][1], subs)
        p.outcome(('data', tuple(pm.descs[:3])))
        if d:
            p.violation('prepbufr-' + d[0], {'file': 'prepbufr.bufr', 'index': k}, d[1])
        gi += 1
    return p


def rows_from_definition(values):
    """independent reading of a decoded definition message (A.8) -> (b rows, d rows)"""
    it = iter(values)

    def s():
        return next(it).decode()
    na = next(it)
    for _ in range(na):
        s(), s(), s()
    b_rows = []
    for _ in range(next(it)):
        f, x, y = s(), s(), s()
        name = s().rstrip() + s().rstrip()
        unit = s().strip()
        ssign, scale, rsign, ref, width = s().strip(), int(s()), s().strip(), int(s()), int(s())
        b_rows.append((int(f + x + y), name, unit, scale if ssign == '+' else -scale, ref if rsign == '+' else -ref, width))
    d_rows = []
    for _ in range(next(it)):
        f, x, y = s(), s(), s()
        name = s()
        n = next(it)
        d_rows.append((int(f + x + y), name, [int(s()) for _ in range(n)]))
    return b_rows, d_rows


def replay(part, case):
    if part == 'prepbufr':
        p = run_prepbufr(None)
        return [{'sig': v['sig'], 'detail': v['detail']} for v in p.viol if v['case'].get('index') == case.get('index')]
    ctx, res = tree.replay(hist_body(tuple(case['history']), case.get('filtered', False)), case['choices'])
    return [{'sig': res['viol'][0], 'detail': res['viol'][1]}] if res['viol'] else []


def main(tier, seed):
    rep = Report(PID, tier, seed)
    rep.rule = ('one node = one history of definition / data events in one stream; one execution = one scan of the stream; '
                'the abstract state (accumulated definitions) is reported, histories are executed unmerged; definition '
                'contents of e1 deviate within the bound; outcome class = (length, expectation per message)')
    rep.trusted_base = ['mc.ref.ncep (definition-message layout A.8), mc.ref.codec with tables extended by the definitions']
    rep.assumptions = ['definition messages follow the NCEP layout of tests/data/prepbufr.bufr (the only layout the property '
                       'names); element ids of classes 48-63 and sequence ids 3 48 / 3 60',
                       'the process-wide table cache is reset before every history (definitions are global state by design)']
    maxlen = 3 if tier == 'quick' else 4
    bound = 1 if tier == 'quick' else 2
    hists = [h for L in range(1, maxlen + 1) for h in itertools.product(EVENTS, repeat=L) if any(e[0] == 'x' for e in h)]
    k = seed % 16
    shards = split(hists, 64)
    defs_, datas_ = [e for e in EVENTS if e[0] == 'd'], [e for e in EVENTS if e[0] == 'x']
    # two separate runs of definition messages with data in between and after: every history of the shape
    # definition, data, definition, data is added to the ones up to the length bound
    shape4 = [h for h in itertools.product(defs_, datas_, defs_, datas_)] if maxlen < 4 else []
    p = merge_all(run_shards(run_hists, [(s, bound) for s in shards[k:] + shards[:k]] + [(s, 0) for s in split(shape4, 32)]))
    allstates = {abstract_state(h, (WIDTHS[0], SCALES[0], REFS[0], UNITS[0])) for h in hists}
    rep.add_part('histories', p, bounds={'events': EVENTS, 'max_length': maxlen, 'histories': len(hists) + len(shape4),
                                         'definition_data_definition_data_histories': len(shape4),
                                         'definition_deviations': bound,
                                         'abstract_states_default_definitions': len(allstates)})
    # a cached compiled template needs: definition, data, another definition, data -- every history of that shape is added
    # to the ones up to the length bound
    p = merge_all(run_shards(run_hists, [(s, bound - 1, 'compiled') for s in shards[k:] + shards[:k]] +
                             [(s, 0, 'compiled') for s in split(shape4, 32)]))
    rep.add_part('histories-compiled', p, bounds={'events': EVENTS, 'max_length': maxlen, 'histories': len(hists) + len(shape4),
                                                  'definition_data_definition_data_histories': len(shape4),
                                                  'definition_deviations': bound - 1, 'compiled_template_cache_max': 8},
                 rule='the same histories read by one decoder with template compilation: a compiled template of an earlier data '
                      'message must not outlive a definition message that changes what its descriptors mean')
    p = merge_all(run_shards(run_hists, [(s, bound - 1, True) for s in shards[k:] + shards[:k]]))
    rep.add_part('histories-filtered', p, bounds={'events': EVENTS, 'max_length': maxlen, 'histories': len(hists),
                                                  'definition_deviations': bound - 1, 'filter_expr': FILTER_NO_DEFS},
                 rule='the same histories scanned with a filter expression that rejects the definition messages: they are not '
                      'delivered, the data messages are, decoded by the definitions')
    # definitions that collide with entries of the shipped local tables: the stream's definition governs, whichever
    # table group (master version x local tables) a data message selects
    ml = 3 if tier == 'quick' else 4
    lh = [h for L in range(1, ml + 1) for h in itertools.product(LOCAL_EVENTS, repeat=L) if any(e[0] == 'x' for e in h)]
    p = merge_all(run_shards(run_hists, [(s, 0) for s in split(lh, 64)]))
    rep.add_part('histories-local-tables', p, bounds={'events': LOCAL_EVENTS, 'max_length': ml, 'histories': len(lh),
                                                      'local_tables': ['98_0/1', '98_0/101', 'none'], 'colliding_id': E5})
    lh2 = [h for L in range(1, ml + 1) for h in itertools.product(LAYOUT_EVENTS, repeat=L) if any(e[0] == 'x' for e in h)
           and any(e in ('dAf', 'xF') for e in h)]
    p = merge_all(run_shards(run_hists, [(s, 0) for s in split(lh2, 64)]))
    rep.add_part('histories-layouts', p, bounds={'events': LAYOUT_EVENTS, 'max_length': ml, 'histories': len(lh2)},
                 rule='definition messages whose Table A part is a fixed replication define like the delayed form; a category-11 '
                      'message that is not in the definition layout must not disturb the scan (no exception other than the library '
                      'error, the other messages delivered)')
    p = run_prepbufr(None)
    p.n['nodes'], p.n['edges'] = p.n['exec'] + 1, p.n['exec']
    rep.add_part('prepbufr', p, bounds={'file': 'tests/data/prepbufr.bufr'})
    return rep.finish()
