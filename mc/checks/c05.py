"""
C05 -- compression is transparent: same data, same decoded result.

Parts:
  columns   ALL columns of n subsets over the raw domain {missing, 0..2^w-2} for small widths, per
            field kind (numeric via 201-resized 001001, scaled numeric, code, flag, 1-bit, strings
            via 208).  For every column:
              (a) the implementation encodes it compressed -> the reference reader reads it back,
                  and the column layout satisfies the statement of C02;
              (b) the implementation decodes (a) to the same column;
              (c) the reference writer encodes it with EVERY legal difference width from the
                  minimum to minimum+2 and {8,16,32,63} -> the implementation decodes the column.
  lattice   widths 5..64, values {0,1,2^(w-1),2^w-2,missing}, n <= 3, same three directions.
  both-ways E1 over G: the same subsets encoded uncompressed and compressed by the implementation
            decode to identical values, labels and links.
"""
import itertools

from mc.checks import codec_common as CC
from mc.engine import tree
from mc.engine.harness import Partial, Report, merge_all
from mc.engine.pool import run_shards, split
from mc.gen import scenario as S
from mc.ref import codec, message, tables
from mc.ref.compare import same_value

PID = 'C05'


def field_template(kind, w):
    """-> (descs, item index of the field, n bytes for strings)"""
    if kind == 'num':            # 001001 is 7 bits
        if w == 7:
            return [1001]
        return [201000 + 128 + w - 7, 1001, 201000]
    if kind == 'scaled':         # 011106: 4 bits scale 1 ; 005002 15 bits scale 2 ref -9000
        base = {4: 11106, 15: 5002}.get(w)
        if base:
            return [base]
        return [201000 + 128 + w - 15, 5002, 201000]
    if kind == 'code':
        return [{2: 2001, 3: 33003, 4: 2002, 6: 31021, 18: 8042, 1: 31031}[w]]
    if kind == 'bit':
        return [31000]
    if kind == 'str':
        return [208000 + w // 8, 1011, 208000]
    raise ValueError(kind)


def column_case(case):
    """case = [kind, w, column(list of raws / None / bytes)] -> (outcome, [violations])"""
    kind, w, col = case
    n = len(col)
    descs = field_template(kind, w)
    B, D = tables.load(33)
    viol = []

    def ref_encode(compressed, spec_nb=('extra', 0)):
        if compressed:
            ch = lambda info: (list(col), spec_nb)
            return codec.encode(B, D, descs, n, True, ch)
        it = iter(col)
        return codec.encode(B, D, descs, n, False, lambda info: next(it))

    buf_u, subs, notes, _ = ref_encode(False)
    if notes:
        return ('envelope',), []
    if kind != 'str':
        present = [r for r in col if r is not None]
        if present and codec.min_nbinc(max(present) - min(present)) > 63 and len(set(col)) > 1:
            return ('envelope',), []     # FM-94 cannot compress this column (6-bit width field)
    exp_vals = [s.values for s in subs]
    exp_raws = [s.raws for s in subs]
    spec_c = message.Spec(edition=4, descs=descs, nsub=n, compressed=True)
    spec_u = message.Spec(edition=4, descs=descs, nsub=n, compressed=False)
    # (a) implementation encodes compressed
    port = codec.encode.last_port
    vals_in = CC.impl_input_values(subs, port, False)
    try:
        got = CC.encoder().process(message.flat_json(spec_c, vals_in), wire_template_data=False).serialized_bytes
    except Exception as e:
        return ('exc',), [('a-encode-raises:' + type(e).__name__, 'compressed encoding raised %r' % e)]
    d = CC.judge_compressed(got, spec_c, subs, descs)
    if d:
        viol.append(('a-' + d[0], d[1]))
    # (b) implementation decodes its own compressed form
    st = S.impl_decode(CC.decoder(), got)
    if st[0] == 'exc':
        viol.append(('b-decode-raises:' + st[1], st[2][:200]))
    else:
        d = S.compare_subsets(st[1], subs)
        if d:
            viol.append(('b-' + d[0], d[1]))
    # (c) every legal difference width
    if kind != 'str' and len(set(col)) > 1:
        present = [r for r in col if r is not None]
        mn = codec.min_nbinc(max(present) - min(present)) if present else 1
        widths = sorted({mn, mn + 1, mn + 2} | {x for x in (8, 16, 32, 63) if x >= mn})
    elif kind != 'str' and col[0] is not None:
        # a constant column: width 0, and written the long way (a non-zero width with all-zero increments)
        widths = [None, 1, 2, 8, 63]
    else:
        widths = [None]
    for nb in widths:
        try:
            buf_c, subs_c, notes_c, nbs = ref_encode(True, ('force', nb) if nb else ('extra', 0))
        except ValueError:
            continue
        b, info = message.build(spec_c, buf_c)
        st = S.impl_decode(CC.decoder(), b)
        if st[0] == 'exc':
            viol.append(('c-decode-raises:' + st[1], 'difference width %r: %s' % (nb, st[2][:200])))
            continue
        d = S.compare_subsets(st[1], subs)
        if d:
            viol.append(('c-%s' % d[0], 'difference width %r: %s' % (nb, d[1])))
    # uncompressed reference message decodes to the same (anchors the comparison both ways)
    bu, info = message.build(spec_u, buf_u)
    st = S.impl_decode(CC.decoder(), bu)
    if st[0] == 'exc':
        viol.append(('u-decode-raises:' + st[1], st[2][:200]))
    else:
        d = S.compare_subsets(st[1], subs)
        if d:
            viol.append(('u-' + d[0], d[1]))
    ndist = len(set(col))
    return (kind, w, n, ndist, sum(1 for c in col if c is None), len(widths)), viol


def columns(tier):
    nmax, wmax = (3, 3) if tier == 'quick' else (4, 4)
    out = []
    for w in range(1, wmax + 1):
        dom = [None] + list(range(0, (1 << w) - 1)) if w > 1 else [0, 1]
        kinds = ['num']
        if w in (2, 3, 4):
            kinds.append('code')
        if w == 4:
            kinds.append('scaled')
        if w == 1:
            kinds = ['bit', 'code']
        for kind in kinds:
            for n in range(1, nmax + 1):
                for col in itertools.product(dom, repeat=n):
                    out.append([kind, w, list(col)])
    sdom = [None, b'A', b'B', b' ', b'\0']       # NUL is a character of the alphabet (CCITT IA5) like any other
    for nb in (1, 2):
        dom = [None if x is None else x * nb for x in sdom] + ([b'AB', b'A', b''] if nb == 2 else [])     # incl. shorter than the field
        for n in range(1, nmax + 1):
            for col in itertools.product(dom, repeat=n):
                out.append(['str', nb * 8, list(col)])
    return out


def lattice(tier):
    out = []
    ws = range(5, 65)
    for w in ws:
        dom = [None, 0, 1, 1 << (w - 1), (1 << w) - 2]
        for n in (1, 2, 3):
            if tier == 'quick' and n == 3 and w % 4:
                continue
            for col in itertools.product(dom, repeat=n):
                out.append(['num', w, list(col)])
        if w in (6, 18):
            for n in (1, 2, 3):
                for col in itertools.product(dom, repeat=n):
                    out.append(['code', w, list(col)])
        if w >= 15 and w <= 50 and (tier == 'thorough' or w % 5 == 0):
            for n in (2,):
                for col in itertools.product(dom, repeat=n):
                    out.append(['scaled', w, list(col)])
    return out


def many_subsets(tier):
    """columns of 5..100 subsets ("dozens of subsets"): all entries a except one b at the first / middle / last position,
    alternating a b, and a ramp, for a, b over the boundary lattice of the width; numeric, code and character fields"""
    out = []
    ns = (5, 12, 33, 64) if tier == 'quick' else (5, 12, 31, 33, 64, 100)
    for w in ((2, 7, 8, 16, 33, 64) if tier == 'quick' else (2, 3, 7, 8, 9, 16, 24, 32, 33, 48, 63, 64)):
        dom = [None, 0, 1, 1 << (w - 1), (1 << w) - 2]
        dom = [x for i, x in enumerate(dom) if x not in dom[:i]]
        for n in ns:
            for a in dom:
                for b in dom:
                    if a == b and not (a == dom[0] or a == 0):
                        continue
                    for k in (0, n // 2, n - 1):
                        col = [a] * n
                        col[k] = b
                        out.append(['num', w, col])
                    out.append(['num', w, [a if i % 2 == 0 else b for i in range(n)]])
            out.append(['num', w, [i % ((1 << w) - 1) for i in range(n)]])
            out.append(['num', w, [None if i % 3 == 0 else (i * 7) % ((1 << w) - 1) for i in range(n)]])
    for n in ns:
        for a, b in itertools.product([None, b'ab', b'  ', b'zz'], repeat=2):
            for k in (0, n - 1):
                col = [a] * n
                col[k] = b
                out.append(['str', 16, col])
        for w in (6,):
            for a, b in itertools.product([None, 0, 62, 31], repeat=2):
                col = [a] * n
                col[n // 2] = b
                out.append(['code', w, col])
    return out


def run_columns(cases):
    p = Partial()
    for case in cases:
        outcome, viol = column_case(case)
        p.n['exec'] += 1
        p.outcome(outcome)
        for sig, detail in viol:
            p.violation('%s|%s' % (sig, case[0]), case, detail)
    return p


# ------------------------------------------------------------------------------------------
def _bothways_judge(descs, nsub, subs, b):
    port = codec.encode.last_port
    vals = CC.impl_input_values(subs, port, True)
    res = {'outcome': S.outcome_class(subs, True), 'bytes': b}
    dec = {}
    for comp in (False, True):
        spec2 = message.Spec(edition=4, descs=descs, nsub=nsub, compressed=comp)
        try:
            m = CC.encoder().process(message.flat_json(spec2, vals), wire_template_data=False).serialized_bytes
        except Exception as e:
            res['viol'] = ('bothways-encode-raises:%s:%s' % (comp, type(e).__name__), repr(e)[:200])
            return res
        st = S.impl_decode(CC.decoder(), m)
        if st[0] == 'exc':
            res['viol'] = ('bothways-decode-raises:%s:%s' % (comp, st[1]), st[2][:200])
            return res
        dec[comp] = st[1]
    for si, ((l0, v0, k0), (l1, v1, k1)) in enumerate(zip(dec[False], dec[True])):
        if l0 != l1:
            res['viol'] = ('bothways-labels', 'subset %d: labels differ between the two storage forms' % si)
        elif k0 != k1:
            res['viol'] = ('bothways-links', 'subset %d: links differ: %r vs %r' % (si, k0, k1))
        elif len(v0) != len(v1) or any(not same_value(a, b) for a, b in zip(v0, v1)):
            j = next((j for j, (a, b) in enumerate(zip(v0, v1)) if not same_value(a, b)), -1)
            res['viol'] = ('bothways-values', 'subset %d item %d (%s): uncompressed %r, compressed %r'
                           % (si, j, l0[j] if j >= 0 else '?', v0[j] if j >= 0 else None, v1[j] if j >= 0 else None))
        if 'viol' in res:
            break
    if 'viol' not in res:
        d = S.compare_subsets(dec[True], subs)
        if d:
            res['viol'] = ('bothways-vs-reference:' + d[0], d[1])
    if 'viol' not in res and b is not None:
        # the reference model's own compressed form of the same subsets (its choice of difference widths, constant
        # structure columns possibly written the long way) must read back as the same data
        st = S.impl_decode(CC.decoder(), b)
        if st[0] == 'exc':
            res['viol'] = ('reference-form-decode-raises:' + st[1], st[2][:200])
        else:
            d = S.compare_subsets(st[1], subs)
            if d:
                res['viol'] = ('reference-form:' + d[0], d[1])
    return res


def bothways_body(descs, env):
    def body(ctx):
        try:
            b, spec, subs, notes = S.build_message(ctx, descs, nsub=env['nsub'], compressed=True, struct_nbinc=True)
        except codec.RefError as e:
            return {'outcome': ('ref-error',), 'skip': 'ref:' + str(e)[:60]}
        if notes:
            return {'outcome': ('envelope',), 'skip': 'envelope:' + notes[0][:60]}
        return _bothways_judge(descs, env['nsub'], subs, b)
    return body


CC.FACTORIES['bothways'] = bothways_body


def bitmap_bothways_body(struct, nsub):
    """a bitmap structure (mc.gen.bitmaps: base x operator x bitmap source x every bit pattern x follower form; the bitmap
    is common to all subsets, every field value differs from its neighbours and between subsets) stored both ways"""
    name, descs, queues, free = struct

    def body(ctx):
        try:
            b, spec, subs, notes = S.build_distinct_message(ctx, descs, nsub=nsub, compressed=True, queues=queues, free=free,
                                                            variant_of_subset=[0] * nsub)
        except codec.RefError as e:
            return {'outcome': ('ref-error',), 'skip': 'ref:' + str(e)[:60]}
        if notes:
            return {'outcome': ('envelope',), 'skip': 'envelope:' + notes[0][:60]}
        res = _bothways_judge(descs, nsub, subs, b)
        res['outcome'] = (tuple(sorted(set(l[:1] for l in subs[0].labels))), len(subs[0].links), nsub)
        return res
    return body


def run_bitmap_bothways(args):
    from mc.engine import tree
    structs, nsub = args
    p = Partial()
    st = tree.Stats()
    for struct in structs:
        def on_leaf(ctx, res, struct=struct):
            p.n['exec'] += 1
            if 'skip' in res:
                p.n['envelope_skipped'] += 1
                p.hist[res['skip'][:50]] += 1
                return
            p.outcome(res['outcome'])
            if 'viol' in res:
                sig, detail = res['viol']
                parts = struct[0].split('|')
                cls = '|'.join(x.split('.')[0] + '.' + x.split('.')[1] if '.' in x else x for x in parts[1:])
                p.violation('%s|%s|%s' % (sig, parts[0], cls), {'struct': list(struct), 'nsub': nsub, 'choices': ctx.vector()},
                            detail, observed=res.get('bytes'))
            elif p.n['exec'] % 500 == 1:
                p.sample({'structure': struct[0], 'descs': struct[1], 'nsub': nsub})
        tree.explore(bitmap_bothways_body(struct, nsub), 0, on_leaf, st)
    p.n['nodes'] += st.nodes
    p.n['edges'] += st.edges
    return p


def replay(part, case):
    if part.startswith('bothways-bitmap'):
        from mc.engine import tree
        s = case['struct']
        queues = [[tuple(x) for x in q] for q in s[2]]
        ctx, res = tree.replay(bitmap_bothways_body((s[0], s[1], queues, s[3]), case['nsub']), case['choices'])
        return [{'sig': res['viol'][0], 'detail': res['viol'][1]}] if 'viol' in res else []
    if part.startswith('bothways'):
        return CC.replay_tree(case)
    outcome, viol = column_case(case)
    return [{'sig': '%s|%s' % (s, case[0]), 'detail': d} for s, d in viol]


def main(tier, seed):
    rep = Report(PID, tier, seed)
    rep.rule = ('columns: every column over the full raw domain for the stated widths and subset counts; an outcome '
                'class is (kind, width, subsets, distinct entries, missing entries, number of difference widths tried)')
    rep.trusted_base = ['mc.ref.codec reader and writer (reference model R)']
    rep.assumptions = ['compressed character columns are written by R with zero base + full-width increments only '
                       '(non-zero base with increments is outside the envelope)',
                       'a compressed numeric entry whose base+increment equals the all-ones pattern is never generated']
    cases = columns(tier)
    p = merge_all(run_shards(run_columns, split(cases, 64)))
    p.n['nodes'], p.n['edges'] = len(cases) + 1, len(cases)
    p.sample(cases[10]); p.sample(cases[len(cases) // 2]); p.sample(cases[-1])
    rep.add_part('columns', p, bounds={'max_subsets': 3 if tier == 'quick' else 4,
                                       'max_width': 3 if tier == 'quick' else 4, 'columns': len(cases)})
    cases = lattice(tier)
    p = merge_all(run_shards(run_columns, split(cases, 64)))
    p.n['nodes'], p.n['edges'] = len(cases) + 1, len(cases)
    p.sample(cases[0]); p.sample(cases[-1])
    rep.add_part('lattice', p, bounds={'widths': '5..64', 'columns': len(cases)})
    cases = many_subsets(tier)
    p = merge_all(run_shards(run_columns, split(cases, 64)))
    p.n['nodes'], p.n['edges'] = len(cases) + 1, len(cases)
    p.sample(cases[len(cases) // 2][:2] + [cases[len(cases) // 2][2][:6]])
    rep.add_part('many-subsets', p, bounds={'subsets': sorted({len(c[2]) for c in cases}), 'widths': sorted({c[1] for c in cases}),
                                            'columns': len(cases), 'shapes': 'one deviating entry (first/middle/last), alternating, ramp, ramp with missing'})

    for name, pargs, env, bound in ([('bothways-2', dict(k=1, c=1, nested=True), dict(nsub=2), 1),
                                     ('bothways-3', dict(k=2, c=1), dict(nsub=3), 0)] if tier == 'quick' else
                                    [('bothways-2', dict(k=2, c=1, nested=True), dict(nsub=2), 1),
                                     ('bothways-3', dict(k=2, c=1, nested=True), dict(nsub=3), 1),
                                     ('bothways-4', dict(k=1, c=1, nested=True), dict(nsub=4), 2)]):
        pool = CC.template_pool(tier, **pargs)
        shards = split(pool, 64)
        k = seed % len(shards)
        p = merge_all(run_shards(CC.run_tree, [(s, env, bound, 'bothways') for s in shards[k:] + shards[:k]]))
        rep.add_part(name, p, bounds=dict(pargs, templates=len(pool), deviations=bound, **env))

    from mc.gen import bitmaps as BM
    for nsub in (2, 3):
        structs = list(BM.chain1(0 if tier == 'quick' else 1)) + (list(BM.chain2(0)) if nsub == 2 else [])
        shards = split(structs, 64)
        k = seed % len(shards)
        p = merge_all(run_shards(run_bitmap_bothways, [(s, nsub) for s in shards[k:] + shards[:k]]))
        rep.add_part('bothways-bitmap-%d' % nsub, p, bounds=dict(structures=len(structs), nsub=nsub, deviations=0,
                                                                   values='every field differs from its neighbours and between subsets'))
    return rep.finish()
