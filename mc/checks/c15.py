"""
C15 -- the path-expression parser accepts exactly the documented grammar.

Parts:
  strings    ALL strings over the 12-symbol alphabet  @ [ ] : / . > - 0 7 A space  up to
             length N (unpruned): acceptance, AST, exception type, print/parse round trip.
  dfa        E2: BFS over the product of R's DFA (abstract state = DFA state, finite) with
             the implementation, to a fixpoint; every (state, symbol) transition is executed
             on the real parser with a probe-suffix set that makes the state observable.
  mutations  the complete 1-edit neighbourhood (insert/delete/replace over the alphabet at
             every position) of a family of long grammar-derived expressions.
Oracle: mc.ref.pathlang.  Don't-care: a path whose first separator is '.'.
"""
import itertools

from mc.engine.harness import Partial, Report, merge_all
from mc.engine.pool import run_shards
from mc.ref import pathlang as R

PID = 'C15'
ALPHA = '@[]:/.>-07A '
TEST_LISTS = [list(range(n)) for n in range(0, 7)]


def _impl():
    from pybufrkit.dataquery import NodePathParser
    from pybufrkit.errors import PathExprParsingError
    return NodePathParser, PathExprParsingError


_sem_cache = {}


def impl_slice_sem(slc):
    """what an implementation slice object selects on lists of length 0..6 (documented: int k = k-th or nothing)"""
    key = slc if isinstance(slc, int) else ('s', slc.start, slc.stop, slc.step)
    r = _sem_cache.get(key)
    if r is None:
        if isinstance(slc, int):
            r = tuple(tuple([l[slc]] if 0 <= slc < len(l) else ([] if slc >= 0 else ['neg-int'])) for l in TEST_LISTS)
        else:
            try:
                r = tuple(tuple(l[slc]) for l in TEST_LISTS)
            except Exception as e:       # e.g. slice step 0
                r = ('exc', type(e).__name__)
        _sem_cache[key] = r
    return r


_ref_cache = {}


def ref_slice_sem(slc):
    r = _ref_cache.get(slc)
    if r is None:
        try:
            r = tuple(tuple(R.apply_slice(slc, l)) for l in TEST_LISTS)
        except Exception as e:
            r = ('exc', type(e).__name__)
        _ref_cache[slc] = r
    return r


def judge(parser, PErr, s):
    """-> (outcome class, violation or None)"""
    try:
        np = parser.parse(s)
        got = True
    except PErr:
        got = False
    except Exception as e:
        return 'exc', ('other-exception:' + type(e).__name__, '%r raised %s: %s' % (s, type(e).__name__, e))
    if R.dontcare(s):
        return 'dontcare', None
    ref = R.parse(s)
    if ref is None:
        if got:
            t = R.strip_ws(s)
            comps = [(c.separator, c.id) for c in np.components]
            if not np.components:
                sig = 'accepted-with-no-component'
            elif any(not c.id.isalnum() for c in np.components):
                sig = 'accepted-non-alnum-id'
            elif R.dfa_state(t) not in (R.DEAD, R.DC):
                sig = 'accepted-incomplete-input'
            else:
                sig = 'accepted-outside-grammar'
            return 'acc-rej', (sig, '%r accepted as %s (subset %r) but is not in the grammar'
                               % (s, comps, np.subset_slice))
        return 'rej', None
    if not got:
        return 'rej-acc', ('rejected-grammatical', '%r is in the grammar but was rejected' % (s,))
    subset, comps = ref
    if impl_slice_sem(np.subset_slice) != ref_slice_sem(subset):
        return 'ast', ('wrong-subset-slice', '%r: subset slice %r, expected %r' % (s, np.subset_slice, subset))
    if len(np.components) != len(comps):
        return 'ast', ('wrong-component-count', '%r: %d components, expected %d' % (s, len(np.components), len(comps)))
    for c, (sep, ident, slc) in zip(np.components, comps):
        if c.separator != sep or c.id != ident:
            return 'ast', ('wrong-component', '%r: component %r, expected %r' % (s, (c.separator, c.id), (sep, ident)))
        if impl_slice_sem(c.slice) != ref_slice_sem(slc):
            return 'ast', ('wrong-slice', '%r: slice %r of %s, expected %r' % (s, c.slice, ident, slc))
    # print / parse round trip
    try:
        np2 = parser.parse(str(np))
    except Exception as e:
        return 'rt', ('roundtrip-raises', '%r printed as %r which raises %s' % (s, str(np), type(e).__name__))
    if np2.subset_slice != np.subset_slice or list(np2.components) != list(np.components):
        return 'rt', ('roundtrip-differs', '%r printed as %r parses differently' % (s, str(np)))
    return 'acc:%d:%s' % (len(comps), 'sub' if subset != R.ALL else ''), None


def run_strings(args):
    prefixes, maxlen = args
    NodePathParser, PErr = _impl()
    parser = NodePathParser()
    p = Partial()
    for pre in prefixes:
        for n in range(0, maxlen - len(pre) + 1):
            if n and len(pre) < 2:
                continue          # shorter prefixes are leaves of their own
            for tup in itertools.product(ALPHA, repeat=n):
                s = pre + ''.join(tup)
                outcome, v = judge(parser, PErr, s)
                p.n['exec'] += 1
                p.hist[outcome.split(':')[0]] += 1
                p.outcome(outcome)
                if v:
                    p.violation(v[0], s, v[1])
    return p


def dfa_explore():
    """E2: BFS over R's DFA states with shortest representative strings."""
    NodePathParser, PErr = _impl()
    parser = NodePathParser()
    p = Partial()
    probes = [''] + [''.join(t) for n in (1, 2, 3) for t in itertools.product('@[]:/.>-0A', repeat=n)]
    probes += ['/0', ']/0', ':]/0', '0]/0', '::]/0', '0:0:0]/0', '/0[0]', '[0]', '/A/A', ']', ':]', '0]']
    seen = {R.START: ''}
    frontier = [R.START]
    trans = 0
    while frontier:
        nxt = []
        for st in frontier:
            rep = seen[st]
            for ch in ALPHA:
                st2 = R.step(st, ch)
                trans += 1
                for pr in probes:
                    s = rep + ch + pr
                    outcome, v = judge(parser, PErr, s)
                    p.n['exec'] += 1
                    p.outcome((st2, outcome.split(':')[0]))
                    if v:
                        p.violation(v[0], s, v[1])
                if st2 not in seen:
                    seen[st2] = rep + ch
                    nxt.append(st2)
        frontier = nxt
    p.n['nodes'] = len(seen)
    p.n['edges'] = trans
    p.sample({'states': sorted(map(str, seen)), 'representatives': sorted(seen.values(), key=len)[:8]})
    return p, len(probes)


SEEDS = [
    '@[0]/301001/001001[0]', '@[-1]>008042', '/101000.031001', '021062.A21062[1:2]',
    '@[::2]/309052/103000[0:1]/010004.033007', '>008042[-2]', '303051/008042', '@[1:]>A21062.031021',
    '/0[0]/7[-7]', 'A.A[::]', '@[0:7:7]/07A/A70[:7]', '> 001001 [ 0 : 7 ]',
]


def mutation_cases():
    seen = set()
    for seed in SEEDS:
        for i in range(len(seed) + 1):
            for ch in ALPHA:
                yield_ = seed[:i] + ch + seed[i:]
                if yield_ not in seen:
                    seen.add(yield_)
                    yield yield_
            if i < len(seed):
                d = seed[:i] + seed[i + 1:]
                if d not in seen:
                    seen.add(d)
                    yield d
                for ch in ALPHA:
                    r = seed[:i] + ch + seed[i + 1:]
                    if r not in seen:
                        seen.add(r)
                        yield r


def run_list(strings):
    NodePathParser, PErr = _impl()
    parser = NodePathParser()
    p = Partial()
    for s in strings:
        outcome, v = judge(parser, PErr, s)
        p.n['exec'] += 1
        p.hist[outcome.split(':')[0]] += 1
        p.outcome(outcome)
        if v:
            p.violation(v[0], s, v[1])
    return p


# ------------------------------------------------------------------------------------------
# several parser objects in one process (two default ones, one created with bare_id_matches_all=False), expressions parsed in
# every order: what a parser answers depends on its own configuration and the expression only
HIST_EXPRS = ['001001', '/001001', '@[1]/001001[0]', '001001[1:]', '/001001[', '@[2', ' 001001 ', '>001001/002001',
              '/001001.A01001[-1]']
HIST_PARSERS = [{}, {'bare_id_matches_all': False}, {}]


def _observe(parser, PErr, expr):
    try:
        path = parser.parse(expr)
    except PErr:
        return ('rejected',)
    except Exception as e:
        return ('exc', type(e).__name__)
    return ('ok', repr(path.subset_slice), tuple((c.separator, c.id, repr(c.slice)) for c in path.components))


def _tuplify(x):
    return tuple(_tuplify(i) for i in x) if isinstance(x, (list, tuple)) else x


def parser_goldens():
    """what each parser configuration answers for each expression when it is the ONLY parser its process ever created: one
    fresh Python process per configuration (a process-wide memo would otherwise decide the golden by whoever parsed first)"""
    import json
    import subprocess
    import sys
    from mc.engine.harness import VERIF
    out = []
    for pi in range(len(HIST_PARSERS)):
        r = subprocess.run([sys.executable, '-m', 'mc.checks.c15', 'golden', str(pi)], cwd=VERIF, capture_output=True, text=True,
                           timeout=300)
        if r.returncode != 0:
            raise RuntimeError('golden process failed: ' + r.stderr[-300:])
        out.append(json.loads(r.stdout))
    return out


def golden_main(pi):
    import json
    import sys
    NodePathParser, PErr = _impl()
    parser = NodePathParser(**HIST_PARSERS[pi])
    sys.stdout.write(json.dumps([_observe(NodePathParser(**HIST_PARSERS[pi]), PErr, e) for e in HIST_EXPRS]))
    return 0


def run_parser_histories(args):
    import itertools
    firsts, length, gold = args
    NodePathParser, PErr = _impl()
    p = Partial()
    ev = [(pi, ei) for pi in range(len(HIST_PARSERS)) for ei in range(len(HIST_EXPRS))]
    golden = {(pi, ei): tuple(_tuplify(gold[pi][ei])) for pi, ei in ev}
    for first in firsts:
        for rest in itertools.product(range(len(ev)), repeat=length - 1):
            h = (first,) + rest
            parsers = [NodePathParser(**kw) for kw in HIST_PARSERS]
            p.n['exec'] += 1
            for step, j in enumerate(h):
                pi, ei = ev[j]
                got = _observe(parsers[pi], PErr, HIST_EXPRS[ei])
                p.n['parses'] += 1
                if got != golden[(pi, ei)]:
                    p.violation('parser-history|%s' % ('other-configuration' if HIST_PARSERS[pi] else 'default'),
                                {'history': [list(ev[x]) for x in h[:step + 1]]},
                                'parser %d (%r) parses %r as %r after the history %r; a fresh parser of the same configuration gives %r'
                                % (pi, HIST_PARSERS[pi], HIST_EXPRS[ei], got, [(ev[x][0], HIST_EXPRS[ev[x][1]]) for x in h[:step]],
                                   golden[(pi, ei)]))
                    break
                p.outcome((pi, ei, got[0]))
    p.n['nodes'] += p.n['parses'] + 1
    p.n['edges'] += p.n['parses']
    return p


def replay(part, case):
    NodePathParser, PErr = _impl()
    if part == 'parser-histories':
        parsers = [NodePathParser(**kw) for kw in HIST_PARSERS]
        got = None
        for pi, ei in case['history']:
            got = _observe(parsers[pi], PErr, HIST_EXPRS[ei])
        pi, ei = case['history'][-1]
        gold = _tuplify(parser_goldens()[pi][ei])
        return [{'sig': 'parser-history|%s' % ('other-configuration' if HIST_PARSERS[pi] else 'default'),
                 'detail': '%r vs fresh %r' % (got, gold)}] if got != gold else []
    outcome, v = judge(NodePathParser(), PErr, case)
    return [{'sig': v[0], 'detail': v[1]}] if v else []


def main(tier, seed):
    rep = Report(PID, tier, seed)
    rep.rule = ('strings: every string over the alphabet up to the length bound (a trie: one node per string); '
                'outcome class = accepted(component count, subset selector)/rejected/don\'t-care; dfa: abstract '
                'state = state of the reference DFA, each transition run on the real parser with a probe-suffix set')
    rep.trusted_base = ['mc.ref.pathlang (regular-expression recogniser + recursive-descent AST + explicit DFA; '
                        'DFA == recogniser checked on all strings <= 7 by selftest)']
    rep.assumptions = ["a path whose first separator is '.' is a don't-care (EBNF allows it, repository tests pin rejection)",
                       'descriptor_id = one or more ASCII letters/digits (length not enforced by either side)',
                       'slice objects are compared by what they select on lists of length 0..6, not by representation']
    N = 6 if tier == 'quick' else 8
    pre2 = [a + b for a in ALPHA for b in ALPHA]
    shards = [([''] + list(ALPHA), N)] + [([x], N) for x in pre2]
    k = seed % len(shards)
    shards = shards[k:] + shards[:k]
    p = merge_all(run_shards(run_strings, shards))
    total = sum(len(ALPHA) ** n for n in range(0, N + 1))
    assert p.n['exec'] == total, (p.n['exec'], total)
    p.n['nodes'] = total
    p.n['edges'] = total - 1
    p.sample('@[0]/A'); p.sample('0[-7:]'); p.sample('@' * N)
    rep.add_part('strings-le%d' % N, p, bounds={'alphabet': ALPHA, 'max_len': N, 'strings': total})

    p, nprobes = dfa_explore()
    rep.add_part('dfa-product', p, bounds={'probe_suffixes': nprobes, 'fixpoint': True},
                 rule='BFS to fixpoint over reference-DFA states; representatives are shortest strings')

    muts = list(mutation_cases())
    p = merge_all(run_shards(run_list, [muts[i::16] for i in range(16)]))
    p.n['nodes'] = len(muts) + len(SEEDS)
    p.n['edges'] = len(muts)
    p.sample(muts[0]); p.sample(muts[-1])
    rep.add_part('mutations', p, bounds={'seeds': len(SEEDS), 'edit_distance': 1, 'cases': len(muts)})
    nev = len(HIST_PARSERS) * len(HIST_EXPRS)
    hl = 3 if tier == 'quick' else 4
    gold = parser_goldens()
    p = merge_all(run_shards(run_parser_histories, [([i], hl, gold) for i in range(nev)]))
    rep.add_part('parser-histories', p, bounds={'parsers': ['default', 'bare_id_matches_all=False', 'default'], 'expressions': HIST_EXPRS,
                                                'history_length': hl, 'histories': nev ** hl},
                 rule='every sequence of (parser object, expression) parses over three parser objects living in one process; each '
                      'step is compared with a fresh parser of the same configuration')
    return rep.finish()


if __name__ == '__main__':
    import sys
    if len(sys.argv) > 2 and sys.argv[1] == 'golden':
        sys.exit(golden_main(int(sys.argv[2])))
