"""
C04 -- section framing and length accounting are exact in both directions.

Full product (S-choices): data-section bit length 0..32 (three template forms giving 1, 2 and 3
descriptors, so section 3 is odd and even) x edition {2,3,4} x section 2 {absent, 0..3 local
octets}.  Deviations (D-choices, bound d):
  enc   declared length of section 1,2,3,4 and of the whole message, each from
        {0 = compute, actual, actual+1, +2, +5, actual-1}; the encoder is run recomputing
        (declared lengths ignored) and honouring them.
  dec   surplus octets inside sections 1,2,4 (0..3) and 3 (0..1) of reference-built messages
        x trailing bytes {none, NUL, 7777, BUFR, a second message} x leading bytes {none, LF, a GTS heading, 'BUF', '7777...'}.
  short a declared section length shorter than the section's content (decoder must refuse).
Oracle: mc.ref.message (layout hard-coded from FM-94).
"""
import contextlib
import io

from mc.engine import tree
from mc.engine.harness import Partial, Report, merge_all
from mc.engine.pool import run_shards, split
from mc.gen import scenario as S
from mc.ref import codec, message
from mc.ref.bits import BitBuf

PID = 'C04'
_enc = {}
_dec = None


def encoder(honour):
    if honour not in _enc:
        from pybufrkit.encoder import Encoder
        _enc[honour] = Encoder(ignore_declared_length=not honour)
    return _enc[honour]


def decoder():
    global _dec
    if _dec is None:
        from pybufrkit.decoder import Decoder
        _dec = Decoder()
    return _dec


def forms():
    """(name, descriptor list, data bits) for every data length 0..32 in three section-3 sizes"""
    out = []
    for l in range(0, 33):
        if l == 0:
            out.append(('op0', [201130, 201000], 0))
            out.append(('op0x3', [201130, 202129, 201000], 0))
        else:
            out.append(('w%d' % l, [201000 + 128 + l - 7, 1001, 201000], l))        # 3 descriptors
            out.append(('s%d' % l, [206000 + l, 54001], l))                         # 2 descriptors
        if l and l % 8 == 0:
            out.append(('t%d' % l, [205000 + l // 8], l))                           # 1 descriptor
    return out


SEC2 = [None, b'', b'\x01', b'\x01\x02', b'BUF']
EDITIONS = [4, 3, 2]


def structures():
    out = []
    for f in forms():
        for ed in EDITIONS:
            for s2 in SEC2:
                out.append((f, ed, s2))
    return out


def ref_message(struct):
    (name, descs, nbits), ed, s2 = struct
    B, D = S.tables_for(33)

    def chooser(info):
        if info['kind'] == 'str':
            return b'Zq' * (info['width'] // 16) + b'Z' * ((info['width'] // 8) % 2)
        w = info['width']
        return ((0x5A5A5A5A5 >> 3) & ((1 << w) - 1)) % max(1, (1 << w) - 1)
    buf, subs, notes, nb = codec.encode(B, D, descs, 1, False, chooser)
    assert buf.n == nbits, (name, buf.n, nbits)
    spec = message.Spec(edition=ed, sec2=s2, descs=descs, nsub=1, compressed=False)
    return spec, buf, subs


def natural_sections(b):
    pm = message.parse(b)
    return pm, [(k,) + pm.sections[k] for k in sorted(pm.sections)]


def check_layout(b, spec, nbits):
    """the statement's framing rules judged directly on the bytes (independent of message.build)"""
    if b[:4] != b'BUFR' or b[-4:] != b'7777':
        return 'signature', 'does not start with BUFR / end with 7777'
    if int.from_bytes(b[4:7], 'big') != len(b):
        return 'total-length', 'section 0 says %d, %d bytes produced' % (int.from_bytes(b[4:7], 'big'), len(b))
    try:
        pm = message.parse(b)
    except Exception as e:
        return 'unparseable', repr(e)
    if pm.end != len(b) or pm.stop != b'7777':
        return 'extent', 'declared section lengths do not add up to the message (end %d, bytes %d)' % (pm.end, len(b))
    return None


# ------------------------------------------------------------------------------------------
DECL = [0, 'act', 1, 2, 5, -1]          # option 0 = compute


def enc_body(struct):
    spec, buf, subs = ref_message(struct)
    natural, info = message.build(spec, buf)
    pm, secs = natural_sections(natural)
    present = [k for k in (1, 2, 3, 4) if k in pm.sections]
    fj_values = [list(s.values) for s in subs]

    def body(ctx):
        declared = {}
        for k in present + ['total']:
            declared[k] = DECL[ctx.pick('decl.%s' % k, len(DECL), 'D')]
        # resolve: section lengths first, then the total (relative to the real total that results)
        lengths = {}
        exp_refuse = False
        pieces = [natural[:8]]
        for k in present:
            off, n = pm.sections[k]
            d = declared[k]
            want = 0 if d == 0 else (n if d == 'act' else n + d)
            lengths[k] = want
            sec = natural[off:off + n]
            if want == 0 or want == n:
                pieces.append(sec)
            elif want > n:
                pieces.append(want.to_bytes(3, 'big') + sec[3:] + b'\0' * (want - n))
            else:
                exp_refuse = True
        honoured = b''.join(pieces) + b'7777'
        real_total = len(honoured)
        d = declared['total']
        want_total = 0 if d == 0 else (real_total if d == 'act' else real_total + d)
        lengths['total'] = want_total
        if want_total not in (0, real_total):
            exp_refuse = True
        honoured = honoured[:4] + real_total.to_bytes(3, 'big') + honoured[7:]
        fj = message.flat_json(spec, fj_values, lengths)
        res = {'outcome': ('enc', struct[1], struct[2] is not None, len(natural) % 2, exp_refuse,
                           tuple(sorted((str(k), str(v)) for k, v in declared.items() if v != 0)))}
        for honour in (False, True):
            with contextlib.redirect_stderr(io.StringIO()):
                try:
                    got = encoder(honour).process(fj, wire_template_data=False).serialized_bytes
                    err = None
                except Exception as e:
                    got, err = None, e
            if not honour:
                if err is not None:
                    res['viol'] = ('recompute-raises:' + type(err).__name__, 'recomputing encoder raised %r' % (err,))
                elif got != natural:
                    lay = check_layout(got, spec, buf.n)
                    res['viol'] = ('recompute-bytes:' + (lay[0] if lay else 'content'),
                                   'recomputing encoder gave %s, expected %s' % (got.hex(), natural.hex()))
            else:
                if exp_refuse:
                    if err is None:
                        res['viol'] = ('honour-accepts-short', 'declared lengths %r accepted, produced %s' % (lengths, got.hex()))
                elif err is not None:
                    res['viol'] = ('honour-raises:' + type(err).__name__, 'honouring encoder raised %r for %r' % (err, lengths))
                elif got != honoured:
                    res['viol'] = ('honour-bytes', 'honouring %r gave %s, expected %s' % (lengths, got.hex(), honoured.hex()))
            if 'viol' in res:
                break
        # the statement's rules on the natural message itself (guards the oracle against a shared mistake)
        lay = check_layout(natural, spec, buf.n)
        if lay and 'viol' not in res:
            res['viol'] = ('oracle-layout:' + lay[0], lay[1])
        for k in present:
            off, n = pm.sections[k]
            if spec.edition <= 3 and n % 2:
                res.setdefault('viol', ('oracle-even', 'reference section %d has odd length' % k))
        return res
    return body


# ------------------------------------------------------------------------------------------
TRAIL = [b'', b'\0', b'7777', b'BUFR', 'second']
# bytes in front of the start signature (Decoder.process locates it): the reported span still runs from BUFR to 7777
LEAD = [b'', b'\n', b'\r\r\n001\r\r\nISMD01 OKPR 010000\r\r\n', b'BUF', b'7777\0\0\0']


def dec_body(struct):
    spec, buf, subs = ref_message(struct)
    second, _ = message.build(message.Spec(edition=4, descs=[1001], nsub=1), _bits(5, 7))

    def body(ctx):
        surplus = {}
        for k, mx in ((1, 3), (2, 3), (3, 1), (4, 3)):
            if k == 2 and spec.sec2 is None:
                continue
            surplus[k] = ctx.pick('surplus.%d' % k, mx + 1, 'D')
        trail = TRAIL[ctx.pick('trail', len(TRAIL), 'S')]
        if trail == 'second':
            trail = second
        lead = LEAD[ctx.pick('lead', len(LEAD), 'D')]
        b, info = message.build(spec, buf, surplus=surplus)
        st = S.impl_decode(decoder(), lead + b + trail, wire_template_data=False)
        res = {'outcome': ('dec', struct[1], struct[2] is not None, tuple(sorted(surplus.items())), len(trail), len(lead))}
        if st[0] == 'exc':
            res['viol'] = ('decode-raises:' + st[1], 'decoding raised %s: %s (surplus %r)' % (st[1], st[2][:160], surplus))
            return res
        d = S.compare_subsets(st[1], subs)
        if d:
            res['viol'] = ('surplus-' + d[0], d[1] + ' (surplus %r)' % surplus)
            return res
        msg = st[2]
        if msg.serialized_bytes != b:
            res['viol'] = ('span', 'serialized_bytes has %d bytes, the message %d (%d leading, %d trailing bytes)'
                           % (len(msg.serialized_bytes), len(b), len(lead), len(trail)))
            return res
        if msg.length.value != len(b):
            res['viol'] = ('length-value', 'length parameter %r' % msg.length.value)
            return res
        pm = message.parse(b)
        for sec in msg.sections:
            k = sec.get_metadata('index')
            if 'section_length' in sec and sec.section_length.value != pm.sections[k][1]:
                res['viol'] = ('section-length-value', 'section %d length %r, declared %d'
                               % (k, sec.section_length.value, pm.sections[k][1]))
                return res
        if spec.sec2 is not None:
            got2 = [p.value for sec in msg.sections if sec.get_metadata('index') == 2 for p in sec][-1]
            want2 = ''.join(format(x, '08b') for x in spec.sec2 + b'\0' * (pm.sections[2][1] - 4 - len(spec.sec2)))
            if got2 != want2:
                res['viol'] = ('section2-bits', 'local bits %r, expected %r' % (got2, want2))
        return res
    return body


def _bits(v, w):
    b = BitBuf()
    b.put(v, w)
    return b


def short_cases(struct):
    """[(section, declared length)] with declared < content octets of that section"""
    spec, buf, subs = ref_message(struct)
    content = {1: 18 if spec.edition < 4 else 22, 3: 7 + 2 * len(spec.descs), 4: 4 + (buf.n + 7) // 8}
    if spec.sec2 is not None:
        content[2] = 4 + len(spec.sec2)
    out = []
    for k, c in sorted(content.items()):
        for d in sorted({c - 1, 4, 3, 0}):
            if d >= c:
                continue
            if k == 3 and d >= 7:
                continue      # fewer descriptors, not an over-run: a different (valid-looking) message
            if k == 2 and d >= 4:
                continue      # local octets have no fixed content beyond the 4-octet header
            out.append((k, d))
    return out


def short_body(struct):
    spec, buf, subs = ref_message(struct)
    cases = short_cases(struct)

    def body(ctx):
        k, d = cases[ctx.pick('short', len(cases), 'S')]
        # with value expectations ignored the stop signature is not validated: the over-run check is then the only guard
        ive = bool(ctx.pick('ignore_value_expectation', 2, 'S'))
        b, info = message.build(spec, buf, declared={k: d})
        with contextlib.redirect_stderr(io.StringIO()):
            try:
                decoder().process(b, wire_template_data=False, ignore_value_expectation=ive)
                out = 'ok'
            except Exception as e:
                out = type(e).__name__
        res = {'outcome': ('short', k, out, ive)}
        if out == 'ok':
            res['viol'] = ('short-accepted' + ('-ive' if ive else ''),
                           'section %d declared %d octets (< content) decodes without error%s'
                           % (k, d, ' (ignore_value_expectation)' if ive else ''))
        return res
    return body


BODIES = {'enc': enc_body, 'dec': dec_body, 'short': short_body}


# ------------------------------------------------------------------------------------------
# sizes across the one- and two-octet boundaries of every length / count field (they are 24- and 16-bit big-endian fields:
# an arithmetic slip in the high octets only shows beyond 255 and beyond 65535)
def large_cases(tier):
    """(name, edition, section 2 local octets or None, descriptor list, number of subsets, compressed)"""
    out = []
    for ed in EDITIONS:
        # data section just below / at / above 256 and 65536 octets (4 + k*255 + r characters)
        for total in (252, 256, 257, 65535, 65536, 65537, 66000):
            n = total - 4
            k, r = divmod(n, 255)
            descs = [205255] * k + ([205000 + r] if r else [])
            out.append(('sec4-%d' % total, ed, None, descs, 1, False))
        # section 3 with 124..129 and 254..257 descriptors (7 + 2n octets: 255/256/257 at n = 124/125; two-octet boundary far away)
        for nd in (124, 125, 126, 254, 255, 256, 257):
            out.append(('sec3-%ddescs' % nd, ed, None, [1001] * nd, 1, False))
        # section 2 of 255 / 256 / 65532 / 65536 local octets
        for n2 in (251, 252, 253, 65531, 65532, 65533):
            out.append(('sec2-%d' % (n2 + 4), ed, bytes((i * 7 + 3) & 0xFF for i in range(n2)), [1001], 1, False))
    # subset counts across 255/256 and (edition 4 only: cost) 65535, uncompressed and compressed
    for ed in EDITIONS:
        for ns in (255, 256, 257):
            for comp in (False, True):
                out.append(('nsub-%d-%s' % (ns, 'c' if comp else 'u'), ed, None, [1001, 2001], ns, comp))
    if tier == 'thorough':
        for comp in (False, True):
            out.append(('nsub-65535-%s' % ('c' if comp else 'u'), 4, None, [2001], 65535, comp))
    return out


def run_large(cases):
    p = Partial()
    B, D = S.tables_for(33)
    for name, ed, s2, descs, nsub, comp in cases:
        cnt = [0]

        def chooser(info):
            cnt[0] += 1
            if info['kind'] == 'str':
                nb = info['width'] // 8
                return bytes(65 + (cnt[0] + i) % 26 for i in range(nb))
            w = info['width']
            if comp:
                return [(s_ * 5 + cnt[0]) % ((1 << w) - 1) for s_ in range(nsub)]
            return (info['subset'] * 5 + cnt[0]) % ((1 << w) - 1)
        buf, subs, notes, nb = codec.encode(B, D, descs, nsub, comp, chooser)
        spec = message.Spec(edition=ed, sec2=s2, descs=descs, nsub=nsub, compressed=comp)
        natural, info = message.build(spec, buf)
        case = {'name': name, 'edition': ed, 'nsub': nsub, 'compressed': comp, 'length': len(natural)}
        p.n['exec'] += 1
        p.outcome((name.split('-')[0], ed, comp, len(natural) > 65535))
        # decoder: values, span, declared lengths, also with bytes behind the message
        for trail in (b'', b'7777BUFR'):
            st = S.impl_decode(decoder(), natural + trail, wire_template_data=False)
            if st[0] == 'exc':
                p.violation('large|decode-raises:%s|%s' % (st[1], name.split('-')[0]), case, st[2][:200])
                break
            d = S.compare_subsets(st[1], subs)
            if d:
                p.violation('large|decode-%s|%s' % (d[0], name.split('-')[0]), case, d[1])
                break
            if st[2].serialized_bytes != natural or st[2].length.value != len(natural):
                p.violation('large|span|%s' % name.split('-')[0], case, 'serialized_bytes %d bytes / length %r, the message has %d'
                            % (len(st[2].serialized_bytes), st[2].length.value, len(natural)))
                break
        # encoder: byte-identical, in recompute mode and honouring the (correct) declared lengths
        pm = message.parse(natural)
        vals = [list(s_.values) for s_ in subs]
        for honour in (False, True):
            lengths = {k: v[1] for k, v in pm.sections.items() if k in (1, 2, 3, 4)} if honour else None
            if honour:
                lengths['total'] = len(natural)
            try:
                with contextlib.redirect_stderr(io.StringIO()):
                    got = encoder(honour).process(message.flat_json(spec, vals, lengths), wire_template_data=False).serialized_bytes
            except Exception as e:
                p.violation('large|encode-raises:%s|%s' % (type(e).__name__, name.split('-')[0]), dict(case, honour=honour), repr(e)[:200])
                continue
            if got != natural:
                k = next((i for i, (x, y) in enumerate(zip(got, natural)) if x != y), min(len(got), len(natural)))
                v = check_layout(got, spec, buf.n)
                p.violation('large|encode-bytes|%s' % name.split('-')[0], dict(case, honour=honour),
                            '%d bytes produced, %d expected; first difference at octet %d; framing: %r' % (len(got), len(natural), k, v))
    p.n['nodes'], p.n['edges'] = p.n['exec'] + 1, p.n['exec']
    return p


def run_shard(args):
    kind, structs, bound = args
    p = Partial()
    st = tree.Stats()
    for struct in structs:
        body = BODIES[kind](struct)

        def on_leaf(ctx, res, struct=struct):
            p.n['exec'] += 1
            p.outcome(res['outcome'])
            if 'viol' in res:
                sig, detail = res['viol']
                p.violation('%s|%s|ed%d' % (kind, sig, struct[1]),
                            {'kind': kind, 'struct': struct, 'choices': ctx.vector()}, detail)
            elif p.n['exec'] % 4000 == 1:
                p.sample({'kind': kind, 'form': struct[0][0], 'descs': struct[0][1], 'edition': struct[1],
                          'sec2': struct[2], 'choices': ctx.vector()})
        tree.explore(body, bound, on_leaf, st)
    p.n['nodes'] += st.nodes
    p.n['edges'] += st.edges
    return p


def replay(part, case):
    if part == 'large':
        cs = [c for c in large_cases('thorough') if c[0] == case['name'] and c[1] == case['edition']]
        p = run_large(cs)
        return [{'sig': v['sig'], 'detail': v['detail']} for v in p.viol if v['case'].get('honour') == case.get('honour')]
    s = case['struct']
    struct = ((s[0][0], s[0][1], s[0][2]), s[1], s[2])
    body = BODIES[case['kind']](struct)
    ctx, res = tree.replay(body, case['choices'])
    return [{'sig': res['viol'][0], 'detail': res['viol'][1]}] if 'viol' in res else []


def main(tier, seed):
    rep = Report(PID, tier, seed)
    rep.rule = ('structure = data bit length 0..32 x descriptor-count form x edition x section 2 variant (all S-choices); '
                'deviations = declared lengths (enc) / surplus octets (dec); an outcome class is (direction, edition, '
                'section 2, parity / surplus vector / trailing length, refusal expected)')
    rep.trusted_base = ['mc.ref.message builder/parser (FM-94 layout, selftest hand vectors); the framing rules are also '
                        'judged directly on the bytes (signatures, total length, extents add up, even octets)']
    rep.assumptions = ['a declared section-3 length that merely drops descriptors, and a declared section-2 length >= 4, '
                       'are different well-formed messages, not "shorter than content" (not generated as short cases)',
                       'refusal by the honouring encoder / the decoder may be any exception here (the outcome classes list the '
                       'types seen); that damage surfaces as the library error type is C12\'s subject']
    structs = structures()
    d = 1 if tier == 'quick' else 2
    for kind, bound in (('enc', d), ('dec', d), ('short', 0)):
        shards = split(structs, 64)
        k = seed % len(shards)
        p = merge_all(run_shards(run_shard, [(kind, s, bound) for s in shards[k:] + shards[:k]]))
        rep.add_part(kind, p, bounds={'structures': len(structs), 'deviations': bound,
                                      'data_bit_lengths': '0..32', 'editions': EDITIONS, 'section2_variants': len(SEC2)})
    lc = large_cases(tier)
    p = merge_all(run_shards(run_large, [[c] for c in lc]))
    rep.add_part('large', p, bounds={'cases': len(lc), 'section4_octets': [252, 256, 257, 65535, 65536, 65537, 66000],
                                     'descriptors': [124, 125, 126, 254, 255, 256, 257], 'section2_octets': [255, 256, 257, 65535, 65536, 65537],
                                     'subsets': [255, 256, 257] + ([65535] if tier == 'thorough' else []), 'editions': EDITIONS},
                 rule='sizes across the one- and two-octet boundaries of the length and count fields, both directions, recompute and '
                      'honour mode, bytes behind the message')
    return rep.finish()
