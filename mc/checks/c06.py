"""
C06 -- subsets of an uncompressed message are decoded independently of each other.

E1 over histories of earlier subsets (unmerged): for each template, every assignment of subset
variants (replication counts, bitmap bits, 203 values, field-value deviations) to the positions
1..m is one execution.  The specification's abstract state at a subset boundary is "fresh", so
the joint decode must equal, position by position, (i) the reference expectation (R applies the
template freshly to every subset) and (ii) what the implementation gives for that subset alone.
Families: G(2,1); templates that END INSIDE an operator construct (201, 202, 204, 207, 208, 203
defining, 221 with a count larger than what follows); bitmap constructs whose base replication
counts and bit patterns differ from subset to subset, with reuse/cancel operators.
The encoder is checked the same way (bytes = concatenation of the per-subset data).
"""
import itertools

from mc.checks import codec_common as CC
from mc.engine import tree
from mc.engine.harness import Partial, Report, merge_all
from mc.engine.pool import run_shards, split
from mc.gen import bitmaps as BM
from mc.gen import grammar as G
from mc.gen import scenario as S
from mc.ref import codec, message
from mc.ref.bits import BitBuf

PID = 'C06'
E = G.E


def open_templates():
    """templates ending inside an operator construct; the elements BEFORE the operator would be read under
    the leaked register in the next subset"""
    pres = [[G.N7], [G.S1], [G.N7, G.S1], [G.N4, G.NS], [G.C2, G.NS]]
    posts = [[G.NS], [G.N7], [G.S1], [G.NS, G.S1]]
    ops = [('201+2', [201130]), ('201-2', [201126]), ('202+1', [202129]), ('207.1', [207001]), ('208.2', [208002]),
           ('204.2', [204002, G.M21]), ('221.3', [221003]), ('221.2', [221002]), ('203def', [203010]),
           ('203open', [203010, G.NS, 203255]), ('206', [206007])]
    out = []
    for pre in pres:
        for oname, od in ops:
            for post in posts:
                if oname == '206' and len(post) > 1:
                    continue
                if oname.startswith('221') and any(x in (G.SEQ2,) for x in post):
                    continue
                name = 'open:%s' % oname
                out.append((name, pre + od + post))
    # the operator is the LAST descriptor of the template (nothing follows it in this subset: whatever it sets is still set
    # when the subset ends), after templates whose first member is an element, a sequence, a replication or an operator
    firsts = [[G.N7], [301001, G.NS], [101002, G.N7], [101000, G.Z8, G.NS], [201130, G.NS, 201000, G.S1]]
    for pre in firsts:
        for oname, od in ops:
            if oname in ('203open',):
                continue
            out.append(('open:last-%s' % oname, pre + od))
    # closed constructs followed by nothing special: controls
    out.append(('ctrl', [G.N7, 201130, G.NS, 201000, G.N7]))
    # 222000 with the QA elements last
    out.append(('open:qa-last', [G.N7, G.NS, 222000, 101002, G.BIT, G.Q7, G.Q7]))
    out.append(('open:236-last', [G.N7, G.NS, 222000, 236000, 101002, G.BIT, G.Q7, G.Q7]))
    out.append(('open:bitmap-last', [G.N7, G.NS, 223000, 101002, G.BIT]))
    return out


def subset_slices(descs, nsub, chooser_factory):
    """reference-encode and return (joint bytes, spec, subs, notes, per-subset data BitBufs)"""
    B, D = S.tables_for(33)
    port = codec.EncPort(chooser_factory, nsub, False)
    subs, notes, bufs = [], [], []
    for s in range(nsub):
        start = port.buf.n
        it = codec.Interp(B, D, port, s)
        it.run(descs)
        notes += it.ambiguous
        subs.append(codec._collect(it, 0))
        nb = port.buf.n - start
        bb = BitBuf()
        bb.put(port.buf.v & ((1 << nb) - 1), nb)
        bufs.append(bb)
    codec.encode.last_port = port
    spec = message.Spec(edition=4, descs=descs, nsub=nsub, compressed=False)
    b, info = message.build(spec, port.buf)
    return b, spec, subs, notes, bufs


_CDEC = None


def compiled_decoder():
    global _CDEC
    if _CDEC is None:
        from pybufrkit.decoder import Decoder
        _CDEC = Decoder(compiled_template_cache_max=8)
    return _CDEC


def judge(descs, nsub, chooser, compiled=False):
    res = {}
    try:
        b, spec, subs, notes, bufs = subset_slices(descs, nsub, chooser)
    except codec.RefError as e:
        return {'outcome': ('ref-error',), 'skip': 'ref:' + str(e)[:60]}
    if notes:
        return {'outcome': ('envelope',), 'skip': 'envelope:' + notes[0][:60]}
    res = {'outcome': (nsub, tuple(len(s.labels) for s in subs), tuple(len(s.links) for s in subs)), 'bytes': b}
    st = S.impl_decode(CC.decoder(), b)
    joint = st
    d = None
    if st[0] == 'exc':
        d = ('decode-raises:' + st[1], 'joint decoding raised %s: %s' % (st[1], st[2][:160]))
    else:
        d = S.compare_subsets(st[1], subs)
    if d:
        # which subsets decode correctly alone?  (differential: tells a leak from a plain decoding error)
        alone_ok = []
        for i in range(nsub):
            spec1 = message.Spec(edition=4, descs=descs, nsub=1, compressed=False)
            b1, _ = message.build(spec1, bufs[i])
            s1 = S.impl_decode(CC.decoder(), b1)
            alone_ok.append(s1[0] == 'ok' and S.compare_subsets(s1[1], [subs[i]]) is None)
        kind = 'leak' if all(alone_ok) else 'decode'
        res['viol'] = ('%s:%s' % (kind, d[0]), '%s; each subset alone decodes correctly: %r' % (d[1], alone_ok))
        return res
    if compiled:
        # the same independence with template compilation switched on (the compiled statements replay the state changes
        # without going through the operator dispatch)
        for rnd in (0, 1):          # first decode compiles, second one runs the cached template
            sc = S.impl_decode(compiled_decoder(), b)
            dc = ('decode-raises:' + sc[1], 'joint decoding raised %s: %s' % (sc[1], sc[2][:160])) if sc[0] == 'exc' else \
                S.compare_subsets(sc[1], subs)
            if dc:
                res['viol'] = ('leak-compiled:%s' % dc[0], 'with template compilation: %s' % dc[1])
                return res
    # nested view per subset must equal the view of the subset decoded alone
    from pybufrkit.renderer import NestedJsonRenderer
    msg = st[2]
    try:
        nj = NestedJsonRenderer().render(msg)
        td = [p for sec in nj for p in sec if p['name'] == 'template_data'][0]['value']
    except Exception as e:
        res['viol'] = ('nested-raises:' + type(e).__name__, repr(e)[:160])
        return res
    for i in range(nsub):
        spec1 = message.Spec(edition=4, descs=descs, nsub=1, compressed=False)
        b1, _ = message.build(spec1, bufs[i])
        s1 = S.impl_decode(CC.decoder(), b1)
        if s1[0] != 'ok':
            res['viol'] = ('alone-raises:' + s1[1], 'subset %d alone raises %s' % (i, s1[2][:120]))
            return res
        nj1 = NestedJsonRenderer().render(s1[2])
        td1 = [p for sec in nj1 for p in sec if p['name'] == 'template_data'][0]['value']
        if td1[0] != td[i]:
            res['viol'] = ('leak:nested', 'hierarchical view of subset %d differs from the view of the subset alone' % i)
            return res
    # encoder: joint encoding == reference message
    port = codec.encode.last_port
    try:
        m2 = CC.encoder().process(message.flat_json(spec, CC.impl_input_values(subs, port, False)),
                                  wire_template_data=False)
    except Exception as e:
        res['viol'] = ('encode-raises:' + type(e).__name__, 'joint encoding raised %r' % (e,))
        return res
    if m2.serialized_bytes != b:
        res['viol'] = ('leak:encode-bytes', 'joint encoding differs from the concatenation of the single-subset data')
    return res


def tree_body(descs, env):
    def body(ctx):
        ch = S.Chooser(ctx, env['nsub'], False, thorough=env.get('thorough', False))
        return judge(descs, env['nsub'], ch, env.get('compiled', False))
    return body


def struct_body(struct, env):
    name, descs, queues, free = struct

    def body(ctx):
        ch = S.DistinctStructChooser(ctx, env['nsub'], False, queues, free, env['vmap'])
        return judge(descs, env['nsub'], ch, env.get('compiled', False))
    return body


def run_shard(args):
    kind, items, env, bound = args
    p = Partial()
    st = tree.Stats()
    for item in items:
        body = tree_body(item[1], env) if kind == 'tree' else struct_body(item, env)

        def on_leaf(ctx, res, item=item):
            p.n['exec'] += 1
            if 'skip' in res:
                p.n['envelope_skipped'] += 1
                return
            p.outcome(res['outcome'])
            if 'viol' in res:
                sig, detail = res['viol']
                case = {'kind': kind, 'env': env, 'choices': ctx.vector()}
                if kind == 'tree':
                    case['descs'] = item[1]
                    cls = item[0] if item[0].startswith(('open', 'ctrl')) else 'G'
                else:
                    case['struct'] = list(item)
                    cls = item[0].split('|')[0]
                p.violation('%s|%s' % (sig, cls), case, detail, observed=res.get('bytes'))
            elif p.n['exec'] % 3000 == 1:
                p.sample({'template': item[0], 'descs': item[1], 'env': env})
        tree.explore(body, bound, on_leaf, st)
    p.n['nodes'] += st.nodes
    p.n['edges'] += st.edges
    return p


def bitmap_variants(tier):
    """bitmap constructs whose base replication counts and patterns differ between the variants"""
    out = []
    counts = [0, 1, 2]
    base = [101000, G.Z8, G.N7, G.NS]
    for c0, c1 in itertools.product(counts, repeat=2):
        for op in BM.OPS:
            for source in ('direct', 'reuse-def') + (('delayed',) if tier == 'thorough' else ()):
                for n in (1, 2):
                    pats = BM.patterns(n)
                    for p0, p1 in itertools.product(pats, repeat=2):
                        if (c0, p0) == (c1, p1):
                            continue
                        d, qs, zeros = BM.construct(op, source, n, [p0, p1], 'delayed')
                        name = 'bDx|%d.%s.%d.%s/%s.c%d%d' % (op // 1000, source, n, ''.join(map(str, p0)),
                                                             ''.join(map(str, p1)), c0, c1)
                        out.append((name, base + d, qs, [[c0], [c1]]))
    # the element that gives an attribute its MEANING (008023 / 008024 / 031021) present in some subsets only (it sits in a
    # delayed replication whose count differs): a subset without it must not inherit the one of an earlier subset
    for c0, c1 in ((1, 0), (0, 1), (0, 0)):
        for op, meaning, marker in ((224000, BM.M23, 224255), (225000, BM.M24, 225255)):
            d = [G.N7, G.NS, op, 101002, BM.BIT, 101000, G.Z8, meaning, marker]
            out.append(('bDm|%d.meaning-in-replication.c%d%d' % (op // 1000, c0, c1), d,
                        [[('bit', 0), ('bit', 1)], [('bit', 1), ('bit', 0)]], [[c0], [c1]]))
        out.append(('bDm|204.meaning-in-replication.c%d%d' % (c0, c1), [204002, 101000, G.Z8, BM.M21, G.N7, 204000, G.NS],
                    [[], []], [[c0], [c1]]))
    # reuse / cancel across the subset boundary: second construct recalls or cancels
    for c0, c1 in ((1, 2), (2, 1), (0, 1), (1, 0)):
        for sep in ([], [237255], [235000]):
            for op2, src2 in ((224000, 'recall'), (223000, 'direct'), (232000, 'reuse-def')):
                if src2 == 'recall' and sep:
                    continue
                for p0 in BM.patterns(2):
                    d1, q1, z1 = BM.construct(222000, 'reuse-def', 2, [p0, p0], 'delayed')
                    n2 = 2 if not (sep == [235000]) else 1
                    p2 = p0 if src2 == 'recall' else (0,) * n2
                    d2, q2, z2 = BM.construct(op2, src2, n2, [p2, p2], 'delayed')
                    name = 'bDx2|222.reuse|%s|%d.%s.c%d%d' % (''.join(map(str, sep)) or '-', op2 // 1000, src2, c0, c1)
                    out.append((name, base + d1 + sep + d2, [a + b for a, b in zip(q1, q2)], [[c0], [c1]]))
    return out


def replay(part, case):
    if case['kind'] == 'tree':
        body = tree_body(case['descs'], case['env'])
    else:
        s = case['struct']
        body = struct_body((s[0], s[1], [[tuple(x) for x in q] for q in s[2]], s[3]), case['env'])
    ctx, res = tree.replay(body, case['choices'])
    return [{'sig': res['viol'][0], 'detail': res['viol'][1]}] if 'viol' in res else []


def main(tier, seed):
    rep = Report(PID, tier, seed)
    rep.rule = ('every template x every assignment of subset variants (structure data are free choices per subset, field '
                'values within the deviation bound) to positions 1..m = one history; outcome class = (subsets, items '
                'per subset, links per subset)')
    rep.trusted_base = ['mc.ref.codec applied freshly to every subset', 'differential: the same subset decoded alone']
    rep.assumptions = ['envelope of DESIGN 2.4']
    opens = open_templates()
    gpool = CC.template_pool(tier, k=2, c=1, nested=(tier == 'thorough'))
    if tier == 'quick':
        # quick: two-item templates only where a construct carries per-subset structure or an operator scope
        # whose end could matter; all one-item templates
        g1 = CC.template_pool(tier, k=1, c=1, nested=True)
        seen = {tuple(d) for n, d in g1}
        gpool = g1 + [(n, d) for n, d in gpool if tuple(d) not in seen and
                      any(t in n for t in ('Dz', '203', '221', '204')) and
                      not any(t in n for t in ('e031000', 'e000010'))]
    bv = bitmap_variants(tier)
    plan = [
        ('open-m2', 'tree', opens, dict(nsub=2, compiled=True), 1),
        ('open-m3', 'tree', opens, dict(nsub=3), 0 if tier == 'quick' else 1),
        ('G-m2', 'tree', gpool, dict(nsub=2), 0 if tier == 'quick' else 1),
        ('bitmap-m2', 'struct', bv, dict(nsub=2, vmap=[0, 1], compiled=True), 0),
        ('bitmap-m2-rev', 'struct', bv, dict(nsub=2, vmap=[1, 0]), 0),
        ('bitmap-m3', 'struct', bv, dict(nsub=3, vmap=[0, 1, 0]), 0),
        # nested delayed replications with different counts per subset; among them pairs of subsets whose expanded
        # descriptor lists coincide although their structures differ
        ('nested-delayed-m2', 'struct', list(BM.nested_delayed(2, 2, 1 if tier == 'quick' else 2, 2)),
         dict(nsub=2, vmap=[0, 1], compiled=True), 0),
        ('nested-delayed-m3', 'struct', list(BM.nested_delayed(2, 2, 1, 3, colliding_only=True)), dict(nsub=3, vmap=[0, 1, 2]), 0),
    ]
    if tier == 'thorough':
        plan += [('G-m3', 'tree', CC.template_pool(tier, k=1, c=1, nested=True), dict(nsub=3), 1),
                 ('bitmap-m3b', 'struct', bv, dict(nsub=3, vmap=[1, 1, 0]), 0),
                 ('bitmap-m3c', 'struct', bv, dict(nsub=3, vmap=[1, 0, 1]), 0),
                 ('bitmap-m2-d1', 'struct', bv, dict(nsub=2, vmap=[0, 1]), 1)]
    for name, kind, items, env, bound in plan:
        shards = split(items, 64)
        k = seed % len(shards)
        p = merge_all(run_shards(run_shard, [(kind, s, env, bound) for s in shards[k:] + shards[:k]]))
        rep.add_part(name, p, bounds=dict(items=len(items), deviations=bound, **env))
    return rep.finish()
