"""
C13 -- no hidden state: results do not depend on what was processed before.

E1 over operation histories, UNMERGED (merging histories by cache contents would need a model of the eviction
policy and would hide exactly the state this property is about).  A history is a sequence of operations over a
pool of 9 messages, executed on ONE decoder and ONE encoder object in ONE process-wide table cache whose limit
is forced to 1, 2 or 3 (the pool uses 6 distinct table groups), with the compiled-template cache off or of
size 1.  Operations (17): decode of each pool message (two of them fail: unknown local descriptor, truncated),
encode of three, queries on two, the four renderings of two, wiring twice.  Every operation's observation must
equal the GOLDEN observation of that operation computed first-thing in a fresh process.
The pool is built for the state that could leak: the same descriptor list under two master versions that define
an element differently; the same list with and without local tables; a 225255 marker (the code derives a
modified descriptor from the shared Table B entry) followed by plain use of that element; compressed data;
failing decodes.
Tables: a reduced copy of the bundled tables (only the entries the pool uses; same rows) under the scratch
directory keeps a table-group load at ~1 ms so that all histories of length 3 (thorough 4) are affordable.
A second part uses the real bundled tables at the real limit of 50 cached groups: more than 50 distinct
groups (36 versions x 2 roots) are loaded in rotated orders before the probes.
"""
from mc import REPO
import contextlib
import io
import itertools
import json
import os
import shutil
import subprocess
import sys

from mc.engine import implstate
from mc.engine.harness import Partial, Report, merge_all, VERIF
from mc.engine.pool import run_shards, split
from mc.ref import codec, message, tables

PID = 'C13'
X = 14001            # defined differently by master versions 13 and 33 (12 vs 17 bits)
LOCAL = 1192         # defined only by the local tables 98_0/1
VERSIONS = [13, 19, 25, 33]
SEQ_REDEF = 306017   # a WMO sequence that contains 007065, which the local tables 98_0/101 REdefine (other scale, width, name)


def scratch_root():
    base = os.environ.get('VERIF_SCRATCH') or '/dev/shm'
    return os.path.join(base, 'c13tables')


def build_mini_tables(root):
    """reduced copy of the bundled tables: the rows the pool needs, unchanged"""
    need_b = {1001, 1002, 2001, 5002, 8023, 8024, 10, 12101, 12001, 33007, X, LOCAL} | {31000, 31001, 31002, 31021, 31031} \
        | {4001, 4002, 4003, 4004, 4005, 6002} | {2032, 8034, 7065, 8080, 33050, 22045}
    need_d = {301001, 301011, 301012, 301023, 301025, SEQ_REDEF}
    if os.path.isdir(root):
        shutil.rmtree(root)
    for v in VERSIONS:
        src = os.path.join(tables.TABLES_ROOT, '0', '0_0', str(v))
        dst = os.path.join(root, '0', '0_0', str(v))
        os.makedirs(dst)
        _copy_subset(src, dst, need_b, need_d)
    for lv in ('1', '101'):
        src = os.path.join(tables.TABLES_ROOT, '0', '98_0', lv)
        dst = os.path.join(root, '0', '98_0', lv)
        os.makedirs(dst)
        _copy_subset(src, dst, need_b, need_d)
    return root


def _copy_subset(src, dst, need_b, need_d):
    with open(os.path.join(src, 'TableB.json')) as f:
        b = json.load(f)
    with open(os.path.join(src, 'TableD.json')) as f:
        d = json.load(f)
    with open(os.path.join(dst, 'TableB.json'), 'w') as f:
        json.dump({k: v for k, v in b.items() if int(k) in need_b}, f)
    with open(os.path.join(dst, 'TableD.json'), 'w') as f:
        json.dump({k: v for k, v in d.items() if int(k) in need_d}, f)


_POOL = None


def pool():
    """[(name, bytes)]"""
    global _POOL
    if _POOL is not None:
        return _POOL
    defs = [
        ('A-v13', 13, None, [1001, X, 101002, 2001], 1, False),
        ('B-v33', 33, None, [1001, X, 101002, 2001], 1, False),
        ('C-v33-comp', 33, None, [201130, 5002, 201000, 101000, 31001, 12101, 10], 2, True),
        ('M-v33-marker', 33, None, [X, 5002, 225000, 236000, 101002, 31031, 8024, 101002, 225255, 224000, 237000, 8023, 101002, 224255, X], 1, False),
        ('L-v13-local', 13, (98, 0, 1), [1001, LOCAL, 2001], 1, False),
        ('V19', 19, None, [301001, 12001, X], 2, False),
        ('V25', 25, None, [1001, 12101, 204003, 31021, 5002, 204000], 1, False),
        # the same WMO sequence without local tables and under local tables that redefine one of its elements
        ('W-v33-seq', 33, None, [SEQ_REDEF], 1, False),
        ('L101-v33-seq', 33, (98, 0, 101), [SEQ_REDEF, 7065], 1, False),
    ]
    out = []
    for name, version, local, descs, nsub, comp in defs:
        Bv, Dv = tables.load(version, local)
        cnt = [0]

        def ch(info):
            cnt[0] += 1
            if info.get('role') == 'factor':
                v = 2
            elif info.get('role') == 'bit':
                v = 0
            elif info['kind'] == 'str':
                v = b'k'
            else:
                v = (5 * cnt[0] + 1) % ((1 << info['width']) - 1)
            if comp:
                return [v] * nsub if (info.get('role') or info['kind'] == 'str') else [min(v + k, (1 << info['width']) - 2) for k in range(nsub)]
            return v
        buf, subs, notes, nb = codec.encode(Bv, Dv, descs, nsub, comp, ch)
        assert not notes, (name, notes)
        meta = {'master_table_version': version}
        if local:
            meta.update(originating_centre=local[0], originating_subcentre=local[1], local_table_version=local[2])
        out.append((name, message.build(message.Spec(meta=meta, descs=descs, nsub=nsub, compressed=comp), buf)[0]))
    byname = dict(out)
    # the local-table message with the local tables switched off: its local descriptor is then unknown
    l = bytearray(byname['L-v13-local'])
    pm = message.parse(bytes(l))
    off1 = pm.sections[1][0]
    # edition 4 section 1: ... octet 14 (index 13 from section start) = local table version
    assert l[off1 + 14] == 1
    l[off1 + 14] = 0
    out.append(('N-v13-nolocal', bytes(l)))
    out.append(('T-truncated', byname['A-v13'][:-9]))
    _POOL = out
    return out


_POOL2 = None
FAILING2 = ('T204', 'T203def', 'Br', 'X7777')


def pool2():
    """Operator-state pool (all master version 33, so the table cache is not what varies): messages that leave an
    operator register, a 203 reference table, an associated-field stack, a bitmap or a back-reference list in force when
    the template ends or when decoding fails half-way, followed by plain messages over the same elements.  Any of that
    state surviving in the decoder/encoder object, in a shared default object or in the cached table entries changes the
    plain messages.  [(name, bytes)]"""
    global _POOL2
    if _POOL2 is not None:
        return _POOL2
    from mc.ref.bits import BitBuf
    Bv, Dv = tables.load(33, None)
    defs = [
        ('P', [5002, 12101, 1001, 10, 2001], 1, False),
        ('Pc', [5002, 12101, 1001, 10, 2001], 2, True),
        ('S203', [203012, 5002, 12101, 203255, 5002, 12101, 203000, 5002], 1, False),
        ('S203o', [203012, 5002, 203255, 5002, 12101], 1, False),
        ('O204', [204003, 31021, 1001, 5002], 1, False),
        ('F204', [204003, 31021, 1001, 5002, 12101, 204000, 10], 1, False),
        ('O201', [201130, 202129, 5002, 12101], 1, False),
        ('O207', [207002, 5002, 1001], 1, False),
        ('O208', [208002, 10, 10], 1, False),
        ('O221', [1001, 221002, 5002], 1, False),
        ('Bm', [1001, 5002, 224000, 236000, 101002, 31031, 8023, 224255], 1, False),
    ]
    out = []
    for name, descs, nsub, comp in defs:
        cnt = [0]

        def ch(info):
            cnt[0] += 1
            if info.get('role') == 'factor':
                v = 2
            elif info.get('role') == 'bit':
                v = 1 if cnt[0] % 2 else 0
            elif info['kind'] == 'str':
                v = b'k' * max(1, info['width'] // 8)
            elif info.get('role') == 'refval' or info['kind'] == 'refval':
                v = -300
            else:
                v = (5 * cnt[0] + 3) % ((1 << info['width']) - 1)
            if comp:
                return [v] * nsub if (info.get('role') or info['kind'] == 'str') else [min(v + k, (1 << info['width']) - 2) for k in range(nsub)]
            return v
        buf, subs, notes, nb = codec.encode(Bv, Dv, descs, nsub, comp, ch)
        out.append((name, message.build(message.Spec(meta={'master_table_version': 33}, descs=descs, nsub=nsub, compressed=comp), buf)[0]))
    byname = dict(out)
    out.append(('T204', byname['F204'][:-9]))            # fails while 204 is in force
    out.append(('T203def', byname['S203'][:-12]))        # fails inside / right after the 203 definitions
    zero = BitBuf()
    zero.put(0, 96)
    # recall (237000) of a bitmap that this message never defined: fails in a fresh process
    out.append(('Br', message.build(message.Spec(meta={'master_table_version': 33},
                                                 descs=[12101, 1001, 224000, 237000, 8023, 224255]), zero)[0]))
    # the stop signature overwritten: decodable only when value expectations are ignored
    out.append(('X7777', byname['P'][:-4] + b'777\0'))
    # the plain message in editions 3 and 2 (their section-1 layouts differ from edition 4)
    for ed in (3, 2):
        cnt = [0]

        def ch2(info):
            cnt[0] += 1
            return b'k' if info['kind'] == 'str' else (5 * cnt[0] + 3) % ((1 << info['width']) - 1)
        buf, subs, notes, nb = codec.encode(Bv, Dv, [5002, 12101, 1001, 10, 2001], 1, False, ch2)
        out.append(('P%d' % ed, message.build(message.Spec(edition=ed, meta={'master_table_version': 33},
                                                           descs=[5002, 12101, 1001, 10, 2001]), buf)[0]))
    _POOL2 = out
    return out


_POOL3 = None
FAILING3 = ('Tq1', 'Tq2', 'TqN', 'Tqc', 'Tq2r', 'Tqd')


def pool3():
    """Failure pool (all master version 33): messages built from Table D sequences (plain, inside replications, nested,
    compressed), each also cut short so that decoding FAILS at a point inside a sequence / a replication / a nested
    sequence; encodes that fail because the data end early or a value does not fit.  A failure must not leave anything
    behind in the decoder / encoder object or in the shared, cached table entries the later valid messages use."""
    global _POOL3
    if _POOL3 is not None:
        return _POOL3
    Bv, Dv = tables.load(33, None)
    defs = [
        ('Q', [301001, 12101, 301011], 1, False),
        ('Q2', [102002, 301001, 12101, 5002], 2, False),
        ('Qc', [301001, 12101, 301011], 2, True),
        ('QN', [301025, 301001], 1, False),
        ('Qd', [1001, 101000, 31001, 301011, 301001], 1, False),
    ]
    out = []
    for name, descs, nsub, comp in defs:
        cnt = [0]

        def ch(info):
            cnt[0] += 1
            if info.get('role') == 'factor':
                v = 2
            else:
                v = (5 * cnt[0] + 3) % ((1 << info['width']) - 1)
            if comp:
                return [v] * nsub if info.get('role') else [min(v + k, (1 << info['width']) - 2) for k in range(nsub)]
            return v
        buf, subs, notes, nb = codec.encode(Bv, Dv, descs, nsub, comp, ch)
        assert not notes, (name, notes)
        out.append((name, message.build(message.Spec(meta={'master_table_version': 33}, descs=descs, nsub=nsub, compressed=comp), buf)[0]))
    byname = dict(out)
    out.append(('Tq1', byname['Q'][:-4 - 7]))      # data end inside 301001 (the first sequence)
    out.append(('Tq2', byname['Q'][:-4 - 2]))      # ... inside 301011 (the last sequence)
    out.append(('TqN', byname['QN'][:-4 - 5]))     # ... inside 301012 inside 301025 (nested sequence)
    out.append(('Tqc', byname['Qc'][:-4 - 4]))     # compressed, inside the last sequence
    out.append(('Tq2r', byname['Q2'][:-4 - 9]))    # inside the second subset, sequence inside a replication
    out.append(('Tqd', byname['Qd'][:-4 - 3]))     # sequence inside a delayed replication, second repetition
    _POOL3 = out
    return out


OPS3 = None


def ops3():
    global OPS3
    if OPS3 is None:
        P = pool3()
        byname = dict(P)
        o = [('D:' + n, 'D', b) for n, b in P]
        o += [('E:' + n, 'E', byname[n]) for n in ('Q', 'Qc', 'QN', 'Qd')]
        # failing encodes: the data of the first subset end early (Ef) / the first value of the last sequence does not fit (Ev)
        o += [('Ef:' + n, 'Ef', byname[n]) for n in ('Q', 'QN', 'Qc')]
        o += [('Ev:' + n, 'Ev', byname[n]) for n in ('Q', 'Q2')]
        o += [('R:' + n, 'R', byname[n]) for n in ('Q', 'QN')]
        OPS3 = o
    return OPS3


OPS2 = None


def ops2():
    global OPS2
    if OPS2 is None:
        P = pool2()
        byname = dict(P)
        o = [('D:' + n, 'D', b) for n, b in P]
        o += [('E:' + n, 'E', byname[n]) for n in ('P', 'Pc', 'S203', 'Bm')]
        o += [('R:' + n, 'R', byname[n]) for n in ('P', 'Bm')]
        o += [('Di:' + n, 'Di', byname[n]) for n in ('P', 'X7777')]
        o += [('Dn:' + n, 'Dn', byname[n]) for n in ('P', 'P3', 'X7777')]
        OPS2 = o
    return OPS2


def _ops_of(which):
    return ops2() if which == 'opstate' else (ops3() if which == 'failures' else ops())


QUERIES = ['/%06d' % X, '>002001', '@[0]/005002', '/005002.D05002', '/101000.031001']
OPS = None


def ops():
    """[(name, kind, pool index)]"""
    global OPS
    if OPS is None:
        P = pool()
        idx = {n: i for i, (n, b) in enumerate(P)}
        o = [('D:' + n, 'D', i) for i, (n, b) in enumerate(P)]
        o += [('E:' + n, 'E', idx[n]) for n in ('A-v13', 'C-v33-comp', 'M-v33-marker')]
        o += [('Q:' + n, 'Q', idx[n]) for n in ('C-v33-comp', 'M-v33-marker')]
        o += [('R:' + n, 'R', idx[n]) for n in ('M-v33-marker', 'C-v33-comp')]
        o += [('W:' + n, 'W', idx[n]) for n in ('M-v33-marker',)]
        OPS = o
    return OPS


class World(object):
    """one decoder, one encoder, the process-wide table cache"""

    def __init__(self, root, limit, ccache):
        import pybufrkit.tables as pt
        from pybufrkit.decoder import Decoder
        from pybufrkit.encoder import Encoder
        implstate.set_table_cache_limit(limit)
        implstate.reset_table_cache()
        self.dec = Decoder(tables_root_dir=root, compiled_template_cache_max=ccache)
        self.enc = Encoder(tables_root_dir=root, compiled_template_cache_max=ccache)
        self.plain = None
        self.root = root

    def run(self, op):
        name, kind, i = op
        b = i if isinstance(i, bytes) else pool()[i][1]
        with contextlib.redirect_stderr(io.StringIO()):
            try:
                return self._run(kind, b)
            except Exception as e:
                return 'EXC %s' % type(e).__name__

    def _run(self, kind, b):
        from pybufrkit.renderer import FlatJsonRenderer, FlatTextRenderer, NestedJsonRenderer, NestedTextRenderer
        if kind == 'D':
            m = self.dec.process(b, wire_template_data=False)
            td = m.template_data.value
            return repr([([str(x) for x in td.decoded_descriptors_all_subsets[k]], list(td.decoded_values_all_subsets[k]),
                          sorted(td.bitmap_links_all_subsets[k].items())) for k in range(len(td.decoded_values_all_subsets))])
        if kind in ('Di', 'Dn'):
            # decoding options of ONE call must not stick to the decoder object: Di = ignore_value_expectation, Dn = info_only
            m = self.dec.process(b, wire_template_data=False, ignore_value_expectation=(kind == 'Di'), info_only=(kind == 'Dn'))
            obs = [[(par.name, par.value) for par in sec if par.name != 'template_data'] for sec in m.sections]
            if kind == 'Di':
                td = m.template_data.value
                obs.append([list(v) for v in td.decoded_values_all_subsets])
            return repr(obs)
        if kind == 'E':
            # the input of the encoder is fixed data (computed once by an unrelated decoder), not a product of the history
            return self.enc.process(json.loads(FLAT[b]), wire_template_data=False).serialized_bytes.hex()
        if kind in ('Ef', 'Ev'):
            data = json.loads(FLAT[b])
            rows = data[-2][-1]             # data section: [length, reserved, [[values of subset 0], ...]]
            if kind == 'Ef':
                del rows[0][-2:]
            else:
                rows[0][-3] = 10 ** 9
            return self.enc.process(data, wire_template_data=False).serialized_bytes.hex()
        m = self.dec.process(b)
        if kind == 'Q':
            from pybufrkit.dataquery import DataQuerent, NodePathParser
            from pybufrkit.errors import QueryError
            q = DataQuerent(NodePathParser())
            out = []
            for expr in QUERIES:
                try:
                    r = q.query(m, expr)
                    out.append([(k, r.get_values(k)) for k in r.subset_indices()])
                except QueryError:
                    out.append('QueryError')
            return repr(out)
        if kind == 'R':
            txt = FlatTextRenderer().render(m)
            txt = txt.split('\n', 1)[1]                     # the first line names the tables root directory
            ntx = NestedTextRenderer().render(m).split('\n', 1)[1]
            return repr((txt, FlatJsonRenderer().render(m), ntx, NestedJsonRenderer().render(m)))
        if kind == 'W':
            # earlier renderings / queries / wiring of the SAME message object must not matter: render, query, wire
            # again twice, then produce the observation of the R operation
            NestedJsonRenderer().render(m)
            from pybufrkit.dataquery import DataQuerent, NodePathParser
            DataQuerent(NodePathParser()).query(m, '>005002')
            m.wire()
            m.wire()
            txt = FlatTextRenderer().render(m).split('\n', 1)[1]
            ntx = NestedTextRenderer().render(m).split('\n', 1)[1]
            return repr((txt, FlatJsonRenderer().render(m), ntx, NestedJsonRenderer().render(m)))
        raise ValueError(kind)


FLAT = {}


def _all_pool():
    return pool() + pool2() + pool3()


def flat_main(argv):
    """python -m mc.checks.c13 flat <root> <k>: flat JSON text of pool message k, decoded as the FIRST thing of a process"""
    from pybufrkit.decoder import Decoder
    from pybufrkit.renderer import FlatJsonRenderer
    from pybufrkit.utils import EntityEncoder
    root, k = argv[0], int(argv[1])
    b = _all_pool()[k][1]
    try:
        with contextlib.redirect_stderr(io.StringIO()):
            sys.stdout.write(json.dumps(FlatJsonRenderer().render(Decoder(tables_root_dir=root).process(b, wire_template_data=False)),
                                        cls=EntityEncoder))
    except Exception:
        sys.stdout.write('')
    return 0


def prepare_flat(root):
    """flat JSON text of the encodable pool messages (input data of the E operations).  Each one comes from its own
    fresh process (so it cannot carry what another message left behind) and is cached in a file next to the tables;
    golden processes and workers only read that file."""
    path = os.path.join(root, 'flat.json')
    if not os.path.exists(path):
        env = dict(os.environ, PYTHONPATH=REPO + ':' + VERIF)
        P = _all_pool()
        procs = [subprocess.Popen([sys.executable, '-m', 'mc.checks.c13', 'flat', root, str(k)], cwd=VERIF, env=env,
                                  stdout=subprocess.PIPE, stderr=subprocess.PIPE, text=True) for k in range(len(P))]
        d = {}
        for (name, b), pr in zip(P, procs):
            o, e = pr.communicate(timeout=300)
            if pr.returncode == 0 and o:
                d[b.hex()] = o
        with open(path + '.tmp', 'w') as f:
            json.dump(d, f)
        os.replace(path + '.tmp', path)
    with open(path) as f:
        for k, v in json.load(f).items():
            FLAT[bytes.fromhex(k)] = v


def golden_main(argv):
    """python -m mc.checks.c13 golden <root> <op index>: the observation of one operation as the FIRST thing a process does"""
    root, which, k = argv[0], argv[1], int(argv[2])
    prepare_flat(root)
    w = World(root, 50, None)
    sys.stdout.write(w.run(_ops_of(which)[k]))
    return 0


def goldens(root, which='main'):
    out = []
    env = dict(os.environ, PYTHONPATH=REPO + ':' + VERIF)
    procs = [subprocess.Popen([sys.executable, '-m', 'mc.checks.c13', 'golden', root, which, str(k)], cwd=VERIF, env=env,
                              stdout=subprocess.PIPE, stderr=subprocess.PIPE, text=True) for k in range(len(_ops_of(which)))]
    for k, pr in enumerate(procs):
        o, e = pr.communicate(timeout=300)
        if pr.returncode != 0:
            raise RuntimeError('golden %d failed: %s' % (k, e[-400:]))
        out.append(o)
    return out


_G = None


def run_histories(args):
    root, hists, configs, gold = args[:4]
    which = args[4] if len(args) > 4 else 'main'
    p = Partial()
    prepare_flat(root)
    O = _ops_of(which)
    for limit, ccache in configs:
        for h in hists:
            w = World(root, limit, ccache)
            p.n['nodes'] += 1
            for step, k in enumerate(h):
                p.n['exec'] += 1
                p.n['edges'] += 1
                got = w.run(O[k])
                if got != gold[k]:
                    prev = [O[j][0] for j in h[:step]]
                    p.violation('history|%s|after-%s' % (O[k][0].split(':')[0], (O[h[step - 1]][0].split(':')[0] if step else 'nothing')),
                                {'history': list(h), 'limit': limit, 'ccache': ccache, 'step': step, 'pool': which},
                                'with table-cache limit %d and compiled cache %r, after %r the operation %s gives a result that '
                                'differs from its result in a fresh process: %s' % (limit, ccache, prev, O[k][0], _short_diff(got, gold[k])))
                    break
            p.outcome((len(h), limit, ccache, len(set(h))))
    return p


def _short_diff(a, b):
    if a[:4] == 'EXC ' or b[:4] == 'EXC ':
        return '%s vs %s' % (a[:60], b[:60])
    k = next((i for i, (x, y) in enumerate(zip(a, b)) if x != y), min(len(a), len(b)))
    return '...%s vs ...%s' % (a[max(0, k - 30):k + 30], b[max(0, k - 30):k + 30])


# ------------------------------------------------------------------------------------------
def run_real_limit(args):
    """real bundled tables, real limit (50): load > 50 distinct groups in a rotated order, then probe"""
    rotations, alt_root = args
    import pybufrkit.tables as pt
    from pybufrkit.decoder import Decoder
    p = Partial()
    vers = tables.master_versions()
    keys = [(None, v) for v in vers] + [(alt_root, v) for v in vers]
    probes = []
    for v in (13, 33, 25):
        Bv, Dv = tables.load(v)

        def ch(info):
            return 7 % ((1 << info['width']) - 1)
        buf, subs, notes, nb = codec.encode(Bv, Dv, [1001, X, 12001], 1, False, ch)
        probes.append((v, message.build(message.Spec(meta={'master_table_version': v}, descs=[1001, X, 12001]), buf)[0],
                       repr([(s.labels, s.values) for s in subs])))
    for rot in rotations:
        implstate.set_table_cache_limit(50)
        implstate.reset_table_cache()
        order = keys[rot:] + keys[:rot]
        p.n['nodes'] += 1
        for root, v in order:
            p.n['edges'] += 1
            try:
                pt.TableGroupCacheManager.get_table_group(tables_root_dir=root, master_table_version=v, normalize=0,
                                                          master_table_number=0, originating_centre=0,
                                                          originating_subcentre=0, local_table_version=0)
            except Exception as e:
                p.violation('real-limit|load-raises:' + type(e).__name__, {'rotation': rot}, repr(e))
                break
        ngroups = implstate.cached_group_count()
        if ngroups is None:
            ngroups = 0
        d = Decoder()
        for v, b, want in probes:
            p.n['exec'] += 1
            with contextlib.redirect_stderr(io.StringIO()):
                try:
                    m = d.process(b, wire_template_data=False)
                    td = m.template_data.value
                    got = repr([([str(x) for x in td.decoded_descriptors_all_subsets[0]], list(td.decoded_values_all_subsets[0]))])
                except Exception as e:
                    got = 'EXC ' + type(e).__name__
            p.outcome((v, ngroups <= 50))
            if got != want:
                p.violation('real-limit|v%d' % v, {'rotation': rot}, 'after loading %d table groups (rotation %d) version %d decodes '
                            'as %s, expected %s' % (len(order), rot, v, got[:120], want[:120]))
        if ngroups > 50:
            p.violation('real-limit|cache-size', {'rotation': rot}, '%d table groups cached, the limit is 50' % ngroups)
    return p


def golden_checks(gold):
    """sanity of the goldens themselves: the decodable pool messages decode, the two failing ones fail, and re-rendering a
    message after renderings / queries / repeated wiring of the same object equals rendering it once"""
    pre = Partial()
    names = [o[0] for o in ops()]
    for k, (oname, kind, i) in enumerate(ops()):
        pre.n['exec'] += 1
        fails = pool()[i][0] in ('N-v13-nolocal', 'T-truncated')
        pre.outcome((kind, gold[k][:4] == 'EXC '))
        if (gold[k][:4] == 'EXC ') != fails:
            pre.violation('golden|%s' % oname.split(':')[0], {'op': oname},
                          'in a fresh process %s gives %s' % (oname, gold[k][:80]))
    if gold[names.index('W:M-v33-marker')] != gold[names.index('R:M-v33-marker')]:
        pre.violation('golden|rewire', {'op': 'W:M-v33-marker'},
                      'rendering a message again after a rendering, a query and two more wire() calls on the same object '
                      'differs from rendering it once')
    pre.n['nodes'], pre.n['edges'] = len(names) + 1, len(names)
    return pre


def golden_checks2(gold):
    pre = Partial()
    for k, (oname, kind, b) in enumerate(ops2()):
        pre.n['exec'] += 1
        fails = oname.split(':')[1] in FAILING2 and kind not in ('Di', 'Dn')
        pre.outcome((kind, gold[k][:4] == 'EXC '))
        if (gold[k][:4] == 'EXC ') != fails:
            pre.violation('golden|%s' % oname, {'op': oname, 'pool': 'opstate'}, 'in a fresh process %s gives %s' % (oname, gold[k][:80]))
    pre.n['nodes'], pre.n['edges'] = len(ops2()) + 1, len(ops2())
    return pre


def golden_checks3(gold):
    pre = Partial()
    for k, (oname, kind, b) in enumerate(ops3()):
        pre.n['exec'] += 1
        fails = oname.split(':')[1] in FAILING3 or kind in ('Ef', 'Ev')
        pre.outcome((kind, gold[k][:4] == 'EXC '))
        if (gold[k][:4] == 'EXC ') != fails:
            pre.violation('golden|%s' % oname, {'op': oname, 'pool': 'failures'}, 'in a fresh process %s gives %s' % (oname, gold[k][:80]))
    pre.n['nodes'], pre.n['edges'] = len(ops3()) + 1, len(ops3())
    return pre


def replay(part, case):
    root = build_mini_tables(scratch_root() + '_replay_%d' % os.getpid())
    try:
        prepare_flat(root)
        if part == 'real-limit':
            alt = os.path.join(root, 'alt_tables')
            os.symlink(tables.TABLES_ROOT, alt)
            p = run_real_limit(([case['rotation']], alt))
        elif part == 'goldens':
            p = golden_checks(goldens(root))
            p.viol = [v for v in p.viol if v['case']['op'] == case['op']]
        elif part == 'goldens-opstate':
            p = golden_checks2(goldens(root, 'opstate'))
            p.viol = [v for v in p.viol if v['case']['op'] == case['op']]
        elif part == 'goldens-failures':
            p = golden_checks3(goldens(root, 'failures'))
            p.viol = [v for v in p.viol if v['case']['op'] == case['op']]
        else:
            which = case.get('pool', 'main')
            gold = goldens(root, which)
            p = run_histories((root, [tuple(case['history'])], [(case['limit'], case['ccache'])], gold, which))
        return [{'sig': v['sig'], 'detail': v['detail']} for v in p.viol]
    finally:
        shutil.rmtree(root, ignore_errors=True)


def main(tier, seed):
    rep = Report(PID, tier, seed)
    rep.rule = ('one node = one history (sequence of operations on shared objects, executed from a freshly reset process-wide '
                'cache); one execution = one operation whose observation is compared with its fresh-process golden; histories '
                'are NOT merged; outcome class = (length, table-cache limit, compiled-cache size, distinct operations)')
    rep.trusted_base = ['golden observations: each operation executed as the first action of a fresh Python process']
    rep.assumptions = ['no table-definition message is processed (statement); the E operations get fixed input data',
                       'the histories use a reduced copy of the bundled tables (same rows, only the entries the pool needs) so '
                       'that a table-group load costs ~1 ms; the real tables are used by the real-limit part']
    root = build_mini_tables(scratch_root())
    try:
        prepare_flat(root)
        gold = goldens(root)
        # the goldens must be reproducible (two fresh processes agree), otherwise nothing can be concluded
        gold2 = goldens(root)
        if gold != gold2:
            print('HARNESS-ERROR property=C13 golden observations differ between two fresh processes')
            return 2
        pre = golden_checks(gold)
        rep.add_part('goldens', pre, bounds={'operations': len(ops())})
        n = len(ops())
        maxlen = 3 if tier == 'quick' else 4
        hists = [h for L in range(1, maxlen + 1) for h in itertools.product(range(n), repeat=L)]
        k = seed % 16
        for limit in (1, 2, 3):
            for ccache in (None, 1):
                shards = split(hists, 64)
                shards = shards[k:] + shards[:k]
                p = merge_all(run_shards(run_histories, [(root, s, [(limit, ccache)], gold) for s in shards]))
                p.sample({'operations': [o[0] for o in ops()], 'history': [ops()[j][0] for j in hists[len(hists) // 2]]})
                rep.add_part('histories-limit%d-cc%s' % (limit, ccache), p,
                             bounds={'operations': n, 'max_length': maxlen, 'histories': len(hists), 'table_cache_limit': limit,
                                     'compiled_cache': ccache, 'distinct_table_groups_in_pool': 6})
        gold_o = goldens(root, 'opstate')
        if gold_o != goldens(root, 'opstate'):
            print('HARNESS-ERROR property=C13 golden observations (operator-state pool) differ between two fresh processes')
            return 2
        rep.add_part('goldens-opstate', golden_checks2(gold_o), bounds={'operations': len(ops2())})
        n2 = len(ops2())
        maxlen2 = 3 if tier == 'quick' else 4
        hists2 = [h for L in range(1, maxlen2 + 1) for h in itertools.product(range(n2), repeat=L)]
        for ccache in ((None, 1) if tier == 'quick' else (None, 1, 3)):
            p = merge_all(run_shards(run_histories, [(root, s_, [(3, ccache)], gold_o, 'opstate') for s_ in split(hists2, 64)]))
            p.sample({'operations': [o[0] for o in ops2()], 'history': [ops2()[j][0] for j in hists2[len(hists2) // 2]]})
            rep.add_part('opstate-cc%s' % ccache, p,
                         bounds={'operations': n2, 'max_length': maxlen2, 'histories': len(hists2), 'compiled_cache': ccache,
                                 'pool': 'messages that end or fail with operator state in force, then plain messages'})
        # the compiled-template cache at sizes 2 and 3 (smaller than the number of templates): every order of 5 (6) decodes of
        # four messages with four different templates under one table group -- hits, misses and evictions in every
        # interleaving; each decode must give what the message gives in a fresh process
        names2 = [o[0] for o in ops2()]
        four = [names2.index('D:' + n_) for n_ in ('P', 'O201', 'O207', 'S203')]
        olen = 5 if tier == 'quick' else 6
        orders = [h for h in itertools.product(four, repeat=olen)]
        p = merge_all(run_shards(run_histories, [(root, s_, [(3, 2), (3, 3)], gold_o, 'opstate') for s_ in split(orders, 64)]))
        rep.add_part('compiled-cache-orders', p, bounds={'messages': ['P', 'O201', 'O207', 'S203'], 'length': olen, 'orders': len(orders),
                                                         'compiled_cache': [2, 3]},
                     rule='every order of decodes of four different templates on one decoder whose compiled-template cache holds 2 / 3')
        gold_f = goldens(root, 'failures')
        if gold_f != goldens(root, 'failures'):
            print('HARNESS-ERROR property=C13 golden observations (failure pool) differ between two fresh processes')
            return 2
        rep.add_part('goldens-failures', golden_checks3(gold_f), bounds={'operations': len(ops3())})
        n3 = len(ops3())
        maxlen3 = 3 if tier == 'quick' else 4
        hists3 = [h for L in range(1, maxlen3 + 1) for h in itertools.product(range(n3), repeat=L)]
        for ccache in ((None, 1) if tier == 'quick' else (None, 1, 3)):
            p = merge_all(run_shards(run_histories, [(root, s_, [(3, ccache)], gold_f, 'failures') for s_ in split(hists3, 64)]))
            p.sample({'operations': [o[0] for o in ops3()], 'history': [ops3()[j][0] for j in hists3[len(hists3) // 2]]})
            rep.add_part('failures-cc%s' % ccache, p,
                         bounds={'operations': n3, 'max_length': maxlen3, 'histories': len(hists3), 'compiled_cache': ccache,
                                 'pool': 'decodes that fail inside a sequence / replication / nested sequence, encodes that fail '
                                         'because data end early or a value does not fit, then valid messages over the same '
                                         'sequences'})
        if tier == 'thorough':
            h5 = [h for h in itertools.product(range(n), repeat=5) if h[0] <= 8]       # every history of 5 that starts with a decode
            p = merge_all(run_shards(run_histories, [(root, s, [(2, 1)], gold) for s in split(h5, 128)]))
            rep.add_part('histories-len5-limit2-cc1', p, bounds={'histories': len(h5), 'length': 5,
                                                                 'restriction': 'first operation is a decode'})
        alt = os.path.join(root, 'alt_tables')
        os.symlink(tables.TABLES_ROOT, alt)
        nrot = 72
        rots = list(range(nrot)) if tier == 'thorough' else list(range(seed % 9, nrot, 9))
        p = merge_all(run_shards(run_real_limit, [([r], alt) for r in rots]))
        rep.add_part('real-limit', p, bounds={'distinct_groups_loaded': 72, 'limit': 50, 'rotations': len(rots)})
    finally:
        shutil.rmtree(root, ignore_errors=True)
    return rep.finish()


if __name__ == '__main__':
    if len(sys.argv) > 1 and sys.argv[1] == 'golden':
        sys.exit(golden_main(sys.argv[2:]))
    if len(sys.argv) > 1 and sys.argv[1] == 'flat':
        sys.exit(flat_main(sys.argv[2:]))
