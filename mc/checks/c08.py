"""
C08 -- template compilation preserves behaviour (decode, encode, save/load).

Differential exploration: for every (program, input) the result with template compilation -- values, labels,
links, bytes, or the exception type -- must equal the result without it (the non-compiled side is anchored
to the reference model by C01/C02), and a compiled template dumped as JSON and loaded back must behave
like the original.
Programs:
  G-*      templates of the grammar G (operators opened and closed within one replication scope, as the
           property requires), all replication counts incl. zero as structure choices (thorough: 0..3), field
           values with the deviation bound, uncompressed and compressed;
  bitmap   the C07 structures: every bit pattern, direct / delayed / reused / recalled bitmaps, markers; the same
           structures inside a fixed / delayed replication that runs 2-3 times within a subset (with and without
           235000 closing each repetition) and with 201/202/207/208 in force at the markers;
  tableD   every sequence of every bundled Table D of versions >= 19 (de-duplicated by expansion + the element
           definitions reached), delayed factors as deviation choices (default 1);
  corpus   the real bytes of every sample message, decode and re-encode.
  freeform every item list (weight <= 4 quick / 5-6 thorough, nesting <= 2 / 3) over markers, elements, operator brackets
           201/202/207/208/204 (nested)/203 and fixed / 1-bit / 8-bit delayed loops after a bitmap over a numeric and a
           character element (mc.gen.freeform) x fixed data patterns: outside the reference model's envelope, judged
           purely differentially (the non-compiled reading of the pattern is the base line);
Histories (E1, unmerged): a pool of 4 programs -- two with the SAME descriptor list under table versions whose
element definitions differ -- decoded in every order of length <= 4 (thorough 5) by one decoder with compiled
cache size 0, 1, 2, 8; every decode must equal the fresh non-compiled decode.
"""
import contextlib
import io
import itertools
import json
import os

from mc.checks import codec_common as CC
from mc.engine import tree
from mc.engine.harness import Partial, Report, merge_all
from mc.engine.pool import run_shards, split
from mc.gen import bitmaps as BM
from mc.gen import corpus
from mc.gen import scenario as S
from mc.ref import codec, message, tables
from mc.ref import template as T

PID = 'C08'
_D = {}


def dec(kind):
    """'nc' non-compiled, 'c' compiled (cache 8), 'r' compiled with every template replaced by its JSON reload"""
    if kind not in _D:
        from pybufrkit.decoder import Decoder
        _D[kind] = Decoder() if kind == 'nc' else Decoder(compiled_template_cache_max=8 if kind == 'c' else 10000)
    return _D[kind]


def enc(kind):
    k = 'e' + kind
    if k not in _D:
        from pybufrkit.encoder import Encoder
        _D[k] = Encoder() if kind == 'nc' else Encoder(compiled_template_cache_max=8)
    return _D[k]


def observe(d, b):
    with contextlib.redirect_stderr(io.StringIO()):
        try:
            msg = d.process(b, wire_template_data=False)
        except Exception as e:
            return ('exc', type(e).__name__)
    td = msg.template_data.value
    return ('ok', [([str(x) for x in td.decoded_descriptors_all_subsets[i]], list(td.decoded_values_all_subsets[i]),
                    dict(td.bitmap_links_all_subsets[i])) for i in range(len(td.decoded_values_all_subsets))], msg)


class ReloadingManager(object):
    """CompiledTemplateManager whose templates all went through to_dict -> JSON -> loads_compiled_template"""

    def __init__(self):
        from pybufrkit.templatecompiler import TemplateCompiler
        self.compiler = TemplateCompiler()
        self.cache = {}

    def get_or_compile(self, template, table_group):
        from pybufrkit.templatecompiler import loads_compiled_template
        key = (tuple(template.original_descriptor_ids), table_group.key)
        if key not in self.cache:
            ct = self.compiler.process(template, table_group)
            self.cache[key] = loads_compiled_template(json.dumps(ct.to_dict()))
        return self.cache[key]


def reload_decoder():
    d = dec('r')
    if not isinstance(d.compiled_template_manager, ReloadingManager):
        d.compiled_template_manager = ReloadingManager()
    return d


def same_obs(a, b):
    if a[0] != b[0]:
        return False
    if a[0] == 'exc':
        return a[1] == b[1]
    return a[1] == b[1]


def describe(a):
    if a[0] == 'exc':
        return 'raises ' + a[1]
    return '%d subsets, %s values' % (len(a[1]), [len(s[1]) for s in a[1]])


def first_diff(a, b):
    if a[0] != 'ok' or b[0] != 'ok':
        return '%s vs %s' % (describe(a), describe(b))
    for si, (x, y) in enumerate(zip(a[1], b[1])):
        for name, p, q in (('labels', x[0], y[0]), ('values', x[1], y[1])):
            if p != q:
                k = next((i for i, (u, v) in enumerate(zip(p, q)) if u != v), min(len(p), len(q)))
                return 'subset %d %s differ at %d: %r vs %r' % (si, name, k, p[k:k + 3], q[k:k + 3])
        if x[2] != y[2]:
            return 'subset %d links %r vs %r' % (si, x[2], y[2])
    return 'subset count'


def compare_paths(b):
    """-> None or (sig, detail): non-compiled vs compiled vs reloaded decode; compiled vs non-compiled encode"""
    base = observe(dec('nc'), b)
    got = observe(dec('c'), b)
    if not same_obs(base, got):
        return ('compiled-decode|%s' % ('error' if 'exc' in (base[0], got[0]) else 'result'),
                'compiled decode differs: ' + first_diff(got, base))
    try:
        rd = reload_decoder()
        got = observe(rd, b)
    except Exception as e:
        got = ('exc', 'reload:' + type(e).__name__)
    if not same_obs(base, got):
        return ('reloaded-decode|%s' % (got[1] if got[0] == 'exc' else 'result'),
                'decode with the saved/loaded template differs: ' + first_diff(got, base))
    if base[0] != 'ok':
        return None
    from pybufrkit.renderer import FlatJsonRenderer
    fj = FlatJsonRenderer().render(base[2])
    outs = []
    for kind in ('nc', 'c'):
        with contextlib.redirect_stderr(io.StringIO()):
            try:
                outs.append(('ok', enc(kind).process(fj, wire_template_data=False).serialized_bytes))
            except Exception as e:
                outs.append(('exc', type(e).__name__))
    if outs[0] != outs[1]:
        return ('compiled-encode|%s' % ('error' if 'exc' in (outs[0][0], outs[1][0]) else 'bytes'),
                'compiled encode %s, non-compiled %s' % (outs[1][0] if outs[1][0] == 'exc' else outs[1][1].hex()[:80],
                                                         outs[0][0] if outs[0][0] == 'exc' else outs[0][1].hex()[:80]))
    return None


def cmp_body(descs, env):
    def body(ctx):
        try:
            b, spec, subs, notes = S.build_message(ctx, descs, nsub=env['nsub'], compressed=env['compressed'],
                                                   thorough=env.get('thorough', False), version=env.get('version', 33))
        except codec.RefError as e:
            return {'skip': 'ref:' + str(e)[:40]}
        if notes:
            return {'skip': 'envelope:' + notes[0][:40]}
        r = compare_paths(b)
        res = {'outcome': S.outcome_class(subs, env['compressed']), 'bytes': b}
        if r:
            res['viol'] = r
        return res
    return body


CC.FACTORIES['compiled'] = cmp_body


def run_structs(args):
    structs, env = args
    p = Partial()
    st = tree.Stats()
    for name, descs, queues, free in structs:
        def body(ctx, descs=descs, queues=queues, free=free):
            try:
                b, spec, subs, notes = S.build_struct_message(ctx, descs, queues, free, nsub=env['nsub'],
                                                              compressed=env['compressed'], variant_of_subset=env['vmap'])
            except codec.RefError:
                return {'skip': 1}
            if notes and not env.get('ambiguous_ok'):
                return {'skip': 1}
            return {'r': compare_paths(b), 'bytes': b, 'links': len(subs[0].links)}

        def on_leaf(ctx, res, name=name, descs=descs, queues=queues, free=free):
            p.n['exec'] += 1
            if 'skip' in res:
                p.n['envelope_skipped'] += 1
                return
            p.outcome((name.split('|')[0], res['links'], env['compressed']))
            if res['r']:
                parts = name.split('|')
                under = '|under-' + name.rsplit('+', 1)[1] if '+' in name else ''
                p.violation('%s|bitmap|%s%s' % (res['r'][0], parts[1].split('.')[0], under),
                            {'struct': [name, descs, queues, free], 'env': env, 'choices': ctx.vector()}, res['r'][1],
                            observed=res['bytes'])
        tree.explore(body, 0, on_leaf, st)
    p.n['nodes'] += st.nodes
    p.n['edges'] += st.edges
    return p


M21_ = 31021


def under_operator_structs(level):
    """bitmap constructs processed while 201 / 202 / 207 / 208 is in force (compile-time state that the compiled
    template has to re-create for marker operators).  Whether FM-94 wants the operator applied to a marker is not judged
    here: compiled and non-compiled processing must simply agree."""
    out = []
    ops = [('201', 201130, 201000), ('202', 202129, 202000), ('207', 207001, 207000), ('208', 208002, 208000)]
    for oname, o_open, o_close in ops:
        for name, descs, queues, free in BM.chain1(level):
            if not name.startswith(('b4|', 'b2|', 'bstr|')):
                continue
            out.append(('%s|%s+%s' % (name.split('|')[0], name.split('|')[1], oname), [o_open] + descs + [o_close], queues, free))
            # operator opened after the base elements: in force only at the markers
            base_len = {'b4': 4, 'b2': 2, 'bstr': 2}[name.split('|')[0]]
            out.append(('%s|%s+%s-late' % (name.split('|')[0], name.split('|')[1], oname),
                        descs[:base_len] + [o_open] + descs[base_len:] + [o_close], queues, free))
    # an associated field (204) in force at the markers, and a new reference value (203) that was defined for a base
    # element and CANCELLED again before the markers (the marker then takes the table reference)
    for name, descs, queues, free in BM.chain1(level):
        if not name.startswith(('b4|', 'b2|')):
            continue
        base_len = {'b4': 4, 'b2': 2}[name.split('|')[0]]
        out.append(('%s|%s+204' % (name.split('|')[0], name.split('|')[1]), [204003, M21_] + descs + [204000], queues, free))
        out.append(('%s|%s+204-late' % (name.split('|')[0], name.split('|')[1]),
                    descs[:base_len] + [204003, M21_] + descs[base_len:] + [204000], queues, free))
        out.append(('%s|%s+203-cancelled' % (name.split('|')[0], name.split('|')[1]),
                    [203012, BM.NS, 203255] + descs[:base_len] + [203000] + descs[base_len:], queues, free))
        out.append(('%s|%s+203-in-force' % (name.split('|')[0], name.split('|')[1]),
                    [203012, BM.NS, 203255] + descs + [203000], queues, free))
    return out


# ------------------------------------------------------------------------------------------
def tabled_programs(tier, seed):
    """[(version, sequence id)] de-duplicated by (expanded ids, definitions of the elements reached)"""
    seen = {}
    for v in tables.master_versions():
        if v < 19:
            continue
        B, D = tables.load(v)
        for d in sorted(D):
            try:
                flat = T.expand([d], D)
            except KeyError:
                continue
            if 31011 in flat or 31012 in flat:
                continue        # delayed repetition is refused as not implemented (at compile time even where a zero count hides it)
            key = (tuple(flat), tuple(B.get(x, ('?',))[1:] for x in flat if x // 100000 == 0))
            if key not in seen:
                seen[key] = (v, d)
    progs = sorted(seen.values())
    if tier == 'quick':
        progs = [p for i, p in enumerate(progs) if p[0] == 33 or i % 8 == seed % 8]
    return progs


def run_tabled(args):
    progs, bound = args
    p = Partial()
    st = tree.Stats()
    for version, d in progs:
        for comp, nsub in ((False, 1), (True, 2)):
            body = cmp_body([d], dict(nsub=nsub, compressed=comp, version=version, thorough=True))

            def on_leaf(ctx, res, version=version, d=d, comp=comp, nsub=nsub):
                p.n['exec'] += 1
                if 'skip' in res:
                    p.n['envelope_skipped'] += 1
                    p.hist[res['skip'][:50]] += 1
                    return
                p.outcome(res['outcome'][:2] + (comp,))
                if 'viol' in res:
                    p.violation('%s|tableD' % res['viol'][0],
                                {'descs': [d], 'env': dict(nsub=nsub, compressed=comp, version=version, thorough=True),
                                 'choices': ctx.vector(), 'factory': 'compiled'}, res['viol'][1], observed=res.get('bytes'))
            tree.explore(_factor_only(body), bound, on_leaf, st)
    p.n['nodes'] += st.nodes
    p.n['edges'] += st.edges
    return p


class _FactorCtx(object):
    """view of an E1 context in which only replication factors / structure data are choice points; field values take
    their default (the code paths of compilation do not depend on field values)"""

    def __init__(self, ctx):
        self.ctx = ctx

    def pick(self, label, n, kind='D'):
        if label.startswith('st.'):
            return self.ctx.pick(label, n, 'D')      # factor deviates from its default 1: costs one deviation
        return 0


def _factor_only(body):
    def wrapped(ctx):
        return body(_FactorCtx(ctx))
    return wrapped


# ------------------------------------------------------------------------------------------
def run_corpus(msgs):
    p = Partial()
    for name, k, m in msgs:
        p.n['exec'] += 1
        r = compare_paths(m)
        pm = message.parse(m)
        p.outcome((tuple(pm.descs[:4]), pm.compressed))
        if r and not (r[0].startswith('compiled-encode') and 'FileNotFoundError' in r[1]):
            p.violation(r[0] + '|corpus', {'file': name, 'index': k}, r[1])
    return p


# ------------------------------------------------------------------------------------------
def history_pool():
    """4 programs; A and B share the descriptor list but use table versions in which an element differs"""
    B13, D13 = tables.load(13)
    B33, D33 = tables.load(33)
    diff = [d for d in sorted(B13) if d in B33 and B13[d][2:] != B33[d][2:] and tables.kind_of(B13[d][1]) == 'num'
            and tables.kind_of(B33[d][1]) == 'num' and (d // 1000) % 100 not in (31,)]
    assert diff, 'no element differs between versions 13 and 33'
    e = diff[0]
    progs = [('A-v13', 13, [1001, e, 101002, 2001], 1, False), ('B-v33', 33, [1001, e, 101002, 2001], 1, False),
             ('C-bitmap', 33, [1001, 5002, 222000, 101002, 31031, 101000, 31002, 33007], 1, False),
             ('D-comp', 33, [201130, 5002, 201000, 101000, 31001, 12101], 2, True)]
    out = []
    for name, version, descs, nsub, comp in progs:
        Bv, Dv = tables.load(version)
        cnt = [0]

        def ch(info):
            cnt[0] += 1
            if info.get('role') == 'factor':
                v = 2
            elif info.get('role') == 'bit':
                v = 0
            else:
                v = (3 * cnt[0]) % ((1 << info['width']) - 1)
            return [v] * nsub if comp else v
        buf, subs, notes, nb = codec.encode(Bv, Dv, descs, nsub, comp, ch)
        b = message.build(message.Spec(meta={'master_table_version': version}, descs=descs, nsub=nsub, compressed=comp), buf)[0]
        out.append((name, b))
    return out, e


def run_histories(args):
    orders, sizes = args
    from pybufrkit.decoder import Decoder
    p = Partial()
    pool, e = history_pool()
    golden = [observe(Decoder(), b) for name, b in pool]
    for size in sizes:
        for order in orders:
            d = Decoder(compiled_template_cache_max=size)
            p.n['nodes'] += 1
            for step, i in enumerate(order):
                p.n['exec'] += 1
                p.n['edges'] += 1
                got = observe(d, pool[i][1])
                if not same_obs(got, golden[i]):
                    p.violation('history|cache%d' % min(size, 3), {'order': list(order), 'cache': size, 'step': step},
                                'after decoding %s with compiled cache %d, %s decodes differently: %s'
                                % ([pool[j][0] for j in order[:step]], size, pool[i][0], first_diff(got, golden[i])))
                    break
            p.outcome((len(order), size, len(set(order))))
    return p


def run_cli_part(_):
    """the command line with --compiled-template-cache-max: decode -m (flat text, nested JSON) of files holding the pool
    messages in every order of length 3, subset and encode; and `compile` (by descriptor list and by file), whose JSON
    must load into a template that decodes like the non-compiled path.  Output must equal the output without the option."""
    from mc.engine.cli import run_cli
    from pybufrkit.templatecompiler import loads_compiled_template
    p = Partial()
    pool, e = history_pool()
    scratch = os.environ.get('VERIF_SCRATCH') or '/dev/shm'
    fn = os.path.join(scratch, 'c08_%d.bufr' % os.getpid())
    fo = fn + '.out'
    try:
        orders = list(itertools.product(range(len(pool)), repeat=3))
        for order in orders:
            with open(fn, 'wb') as f:
                f.write(b''.join(pool[i][1] for i in order))
            for flags in ([], ['-j', '-a']):
                if flags and order[0] > order[1]:
                    continue
                base = run_cli(['decode', '-m'] + flags + [fn])
                for size in ('0', '1', '2'):
                    p.n['exec'] += 1
                    got = run_cli(['decode', '-m', '--compiled-template-cache-max', size] + flags + [fn])
                    p.outcome(('decode', bool(flags), size, len(set(order))))
                    if (got[0], repr(got[2]), got[3]) != (base[0], repr(base[2]), base[3]):
                        k = next((i for i, (x, y) in enumerate(zip(got[0], base[0])) if x != y), 0)
                        p.violation('cli-decode|cache%s' % size, {'order': list(order), 'flags': flags, 'cache': size},
                                    'decode -m %s of %r with --compiled-template-cache-max %s differs from the output without it '
                                    '(%r / %r) near %r vs %r' % (' '.join(flags), [pool[i][0] for i in order], size, got[2], base[2],
                                                                 got[0][max(0, k - 40):k + 40], base[0][max(0, k - 40):k + 40]))
        # encode and subset
        for i, (name, b) in enumerate(pool):
            with open(fn, 'wb') as f:
                f.write(b)
            js = run_cli(['decode', '-j', fn])[0]
            outs = []
            for size in (None, '1'):
                if os.path.exists(fo):
                    os.remove(fo)
                r = run_cli(['encode', '-j'] + (['--compiled-template-cache-max', size] if size else []) + ['-', fo], stdin_text=js)
                outs.append((open(fo, 'rb').read() if os.path.exists(fo) else None, repr(r[2]), r[3]))
            p.n['exec'] += 1
            p.outcome(('encode', name))
            if outs[0] != outs[1] or outs[0][0] != b:
                p.violation('cli-encode', {'message': name}, 'encode -j of %s: with the option %r, without %r, original %d bytes'
                            % (name, outs[1][0] and outs[1][0].hex()[:60], outs[0][0] and outs[0][0].hex()[:60], len(b)))
            if i == 3:
                outs = []
                for size in (None, '1'):
                    if os.path.exists(fo):
                        os.remove(fo)
                    r = run_cli(['subset'] + (['--compiled-template-cache-max', size] if size else []) + ['1,0', fn, fo])
                    outs.append((open(fo, 'rb').read() if os.path.exists(fo) else None, repr(r[2]), r[3]))
                p.n['exec'] += 1
                p.outcome(('subset', name))
                if outs[0] != outs[1] or outs[0][0] is None:
                    p.violation('cli-subset', {'message': name}, 'subset 1,0 with / without the option differ: %r vs %r'
                                % (outs[1][0] and outs[1][0].hex()[:60], outs[0][0] and outs[0][0].hex()[:60]))
        # compile: by descriptor list and by file
        from pybufrkit.decoder import Decoder
        for name, b in pool:
            pm = message.parse(b)
            with open(fn, 'wb') as f:
                f.write(b)
            ids = ','.join('%06d' % d for d in pm.descs)
            for how, argv in (('list', ['compile', '--master-table-version', str(pm.meta['master_table_version']), ids]),
                              ('file', ['compile', fn])):
                p.n['exec'] += 1
                out, err, exc, code = run_cli(argv)
                case = {'message': name, 'how': how}
                p.outcome(('compile', how, name))
                try:
                    ct = loads_compiled_template(out)
                except Exception as ex:
                    p.violation('cli-compile-unloadable', case, 'compile %s: %r / %r, output %r' % (how, exc, ex, out[:80]))
                    continue

                class One(object):
                    def get_or_compile(self, template, table_group, ct=ct):
                        return ct
                d = Decoder(compiled_template_cache_max=1)
                d.compiled_template_manager = One()
                if not same_obs(observe(d, b), observe(dec('nc'), b)):
                    p.violation('cli-compile-behaviour', case, 'the template printed by compile (%s) decodes %s differently: %s'
                                % (how, name, first_diff(observe(d, b), observe(dec('nc'), b))))
    finally:
        for f_ in (fn, fo):
            if os.path.exists(f_):
                os.remove(f_)
    return p


def run_freeform(args):
    """free-form programs (mc.gen.freeform) x data patterns x (1 subset, 2 subsets, 2 subsets compressed): the non-compiled
    decoder's reading of the pattern is the base line; compiled, reloaded and both encoders must agree with it"""
    from mc.gen import freeform as F
    progs, patterns = args
    p = Partial()
    for name, descs in progs:
        p.n['nodes'] += 1
        for pat in patterns:
            for nsub, comp in ((1, False), (2, False), (2, True)):
                b = F.build(descs, pat, nsub, comp)
                p.n['exec'] += 1
                p.n['edges'] += 1
                base = observe(dec('nc'), b)
                p.hist['base:' + (base[0] if base[0] == 'ok' else base[1])] += 1
                if base[0] == 'ok':
                    p.outcome((name.split('|')[0], nsub, comp, min(3, len(base[1][0][2])), min(40, len(base[1][0][1])) // 8))
                r = compare_paths(b)
                if r:
                    p.violation('%s|freeform|%s' % (r[0], name.split('|')[0]),
                                {'name': name, 'descs': descs, 'pattern': pat, 'nsub': nsub, 'compressed': comp}, r[1], observed=b)
    return p


def replay(part, case):
    if part == 'cli':
        p = run_cli_part(None)
        return [{'sig': v['sig'], 'detail': v['detail']} for v in p.viol if v['case'] == case]
    if part.startswith('freeform'):
        from mc.gen import freeform as F
        r = compare_paths(F.build(case['descs'], case['pattern'], case['nsub'], case['compressed']))
        return [{'sig': '%s|freeform|%s' % (r[0], case['name'].split('|')[0]), 'detail': r[1]}] if r else []
    if part == 'corpus':
        from mc.gen.corpus import TESTS, scan
        m = scan(open(os.path.join(TESTS, case['file']), 'rb').read())[case['index']]
        p = run_corpus([(case['file'], case['index'], m)])
        return [{'sig': v['sig'], 'detail': v['detail']} for v in p.viol]
    if part.startswith('bitmap'):
        s = case['struct']
        p = run_structs(([(s[0], s[1], [[tuple(x) for x in q] for q in s[2]], s[3])], case['env']))
        return [{'sig': v['sig'], 'detail': v['detail']} for v in p.viol if v['case']['choices'] == case['choices']]
    if part == 'histories':
        p = run_histories(([tuple(case['order'])], [case['cache']]))
        return [{'sig': v['sig'], 'detail': v['detail']} for v in p.viol]
    if part == 'tableD':
        body = _factor_only(cmp_body(case['descs'], case['env']))
        ctx, res = tree.replay(body, case['choices'])
        return [{'sig': res['viol'][0], 'detail': res['viol'][1]}] if 'viol' in res else []
    return CC.replay_tree(case)


def main(tier, seed):
    rep = Report(PID, tier, seed)
    rep.rule = ('one execution = one message decoded three ways (plain, compiled, compiled after JSON save/load) and encoded '
                'two ways; programs x structure data x field-value deviations; histories: every order of <= 4 (5) decodes '
                'over a 4-program pool x compiled cache sizes {0,1,2,8}, unmerged')
    rep.trusted_base = ['differential: the non-compiled path (anchored to the reference model by C01/C02) is the oracle; '
                        'mc.ref.codec only builds the input messages']
    rep.assumptions = ['templates in which an operator is opened inside a replication body and closed outside it are outside '
                       'the property (not generated)', 'envelope of DESIGN 2.4']
    th = tier == 'thorough'
    plan = [('G-u1', dict(k=1, c=1, nested=True, small_sigma=not th), dict(nsub=1, compressed=False, thorough=th), 1),
            ('G-c2', dict(k=1, c=1, nested=True), dict(nsub=2, compressed=True, thorough=th), 0 if not th else 1),
            ('G-u1-k2', dict(k=2, c=1), dict(nsub=1, compressed=False), 0)]
    if th:
        plan += [('G-u2-k2', dict(k=2, c=1), dict(nsub=2, compressed=False), 0),
                 ('G-u1-k2-d2', dict(k=2, c=1), dict(nsub=1, compressed=False, thorough=True), 2),
                 ('G-k3', dict(k=3, c=1), dict(nsub=1, compressed=False), 0)]
    for name, pargs, env, bound in plan:
        pool = CC.template_pool(tier, **pargs)
        shards = split(pool, 64)
        k = seed % len(shards)
        p = merge_all(run_shards(CC.run_tree, [(s, env, bound, 'compiled') for s in shards[k:] + shards[:k]]))
        rep.add_part(name, p, bounds=dict(pargs, templates=len(pool), deviations=bound, **env))
    L = 0 if tier == 'quick' else 1
    for name, structs, env in (('bitmap-chain1-u1', list(BM.chain1(L + 1)), dict(nsub=1, compressed=False, vmap=[0])),
                               ('bitmap-chain1-c2', list(BM.chain1(L)), dict(nsub=2, compressed=True, vmap=[0, 0])),
                               ('bitmap-chain1-u2-diff', list(BM.chain1(L, 2)), dict(nsub=2, compressed=False, vmap=[0, 1])),
                               ('bitmap-chain2-u1', list(BM.chain2(L)), dict(nsub=1, compressed=False, vmap=[0])),
                               ('bitmap-in-replication-u1',
                                list(BM.wrapped(BM.chain1(L), 2, True)) + list(BM.wrapped(BM.chain1(L), 2, False)) +
                                list(BM.wrapped(BM.chain1(0), 3, True, delayed=True)) + list(BM.wrapped(BM.chain1(0), 2, False, delayed=True)),
                                dict(nsub=1, compressed=False, vmap=[0])),
                               ('bitmap-in-replication-c2',
                                list(BM.wrapped(BM.chain1(0), 2, True)) + list(BM.wrapped(BM.chain1(0), 2, False, delayed=True)),
                                dict(nsub=2, compressed=True, vmap=[0, 0])),
                               ('bitmap-under-operator-u1', under_operator_structs(2), dict(nsub=1, compressed=False, vmap=[0], ambiguous_ok=True)),
                               ('bitmap-under-operator-c2', under_operator_structs(2), dict(nsub=2, compressed=True, vmap=[0, 0], ambiguous_ok=True))):
        p = merge_all(run_shards(run_structs, [(s, env) for s in split(structs, 64)]))
        rep.add_part(name, p, bounds=dict(structures=len(structs), **env))
    from mc.gen import freeform as F
    if tier == 'quick':
        ff = [('freeform-markers', F.marker_programs(4, 2, extra_leaves=()) + F.marker_programs(3, 2), [0, 2, 3, 5]),
              ('freeform-markers-after-delayed', F.marker_programs(3, 2, extra_leaves=(), base='B'), [0, 1, 3, 4]),
              ('freeform-operators', F.operator_programs(3, 2) + F.focused_programs(4, 2), [0, 2, 3, 5])]
    else:
        ff = [('freeform-markers', F.marker_programs(5, 3, extra_leaves=()) + F.marker_programs(4, 3), list(range(len(F.PATTERNS)))),
              ('freeform-markers-w6', F.marker_programs(6, 3, headers=F.HEADERS[1:3], extra_leaves=()), [0, 2, 3, 5]),
              ('freeform-markers-after-delayed', F.marker_programs(4, 3, base='B'), list(range(len(F.PATTERNS)))),
              ('freeform-operators', F.operator_programs(4, 2) + F.focused_programs(6, 3), list(range(len(F.PATTERNS))))]
    def reopened(descs):
        # 201 / 202 / 207 / 208 / 203 do not nest: YYY = 0 cancels the operator whoever opened it.  A bracket of one of them inside a
        # bracket of the same operator is therefore closed by the INNER cancel - when the inner bracket sits in a loop, an
        # operator opened outside the loop is closed inside it, which is what the property's precondition excludes
        open_ = set()
        for d in descs:
            op, y = d // 1000, d % 1000
            if op in (201, 202, 207, 208) or (op == 203 and y != 255):       # 203255 only ends the definition list
                if y:
                    if op in open_:
                        return True
                    open_.add(op)
                else:
                    open_.discard(op)
        return False
    for name, progs, pats in ff:
        seen, uniq = set(), []
        for nm, d in progs:
            if reopened(d):
                continue
            if tuple(d) not in seen:
                seen.add(tuple(d))
                uniq.append((nm, d))
        p = merge_all(run_shards(run_freeform, [(s_, pats) for s_ in split(uniq, 128)]))
        p.sample({'program': uniq[len(uniq) // 2][0], 'descs': uniq[len(uniq) // 2][1]})
        rep.add_part(name, p, bounds={'programs': len(uniq), 'patterns': [F.PATTERNS[i][0] for i in pats],
                                      'envelopes': ['1 subset', '2 subsets', '2 subsets compressed'],
                                      'grammar': 'mc.gen.freeform (operators opened and closed within one replication scope)'})
    progs = tabled_programs(tier, seed)
    bound = 1 if tier == 'quick' else 2
    p = merge_all(run_shards(run_tabled, [(s, bound) for s in split(progs, 128)]))
    rep.add_part('tableD', p, bounds={'programs': len(progs), 'factor_deviations': bound, 'versions': '>= 19'},
                 extra={'note': 'quick = every distinct sequence of version 33 + a 1/8 slice (VERIF_SEED) of the others'})
    msgs = list(corpus.messages(max_bytes=6000 if tier == 'quick' else None))
    p = merge_all(run_shards(run_corpus, split(msgs, 64)))
    p.n['nodes'], p.n['edges'] = p.n['exec'] + 1, p.n['exec']
    p.sample({'file': msgs[0][0], 'index': msgs[0][1]})
    rep.add_part('corpus', p, bounds={'messages': len(msgs)})
    maxlen = 4 if tier == 'quick' else 5
    orders = [o for n in range(1, maxlen + 1) for o in itertools.product(range(4), repeat=n)]
    p = merge_all(run_shards(run_histories, [(s, [0, 1, 2, 8]) for s in split(orders, 32)]))
    rep.add_part('histories', p, bounds={'orders': len(orders), 'max_length': maxlen, 'cache_sizes': [0, 1, 2, 8]})
    p = run_cli_part(None)
    p.n['nodes'], p.n['edges'] = p.n['exec'] + 1, p.n['exec']
    rep.add_part('cli', p, bounds={'invocations': p.n['exec'], 'commands': ['decode -m', 'encode', 'subset', 'compile'],
                                   'cache_sizes': [0, 1, 2], 'orders': 'every order of 3 over the 4-program pool'})
    return rep.finish()
