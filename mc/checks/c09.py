"""
C09 -- all four output formats carry the same data and convert back to it.

For every message of the space the real decoder's result is rendered as flat text, flat JSON, nested text
and nested JSON; each rendering is converted back with the library's own converters and must equal the
flat JSON (Python equality, bytes as bytes); encoding from each of them (and from the serialised JSON text,
as the command line does) must give the same bytes; the nested JSON is judged by mc.ref.nested:
every decoded value exactly once (member / factor / non-virtual attribute), flat order recovered by the
documented traversal.
Spaces:
  strings  ALL strings of length 2 (thorough 3) over {a, space, ', ", \\, b, #, >, -, =, 0xE9, 0xFF} in a
           208-resized character field, alone and next to an associated field / inside a replication;
  tree-*   E1 over the template grammar G(1,1) incl. nested bodies (thorough G(2,1)) with value deviations
           (flag tables, missing values, zero counts, 221, 204, 203, 205/206), 1 and 2 subsets, compressed too;
  bitmap   the C07 structures (attributes on elements / factors, chained, reused bitmaps), also with subsets whose
           descriptor lists are identical but whose bitmaps differ, and inside a replication;
  dnp      221YYY spans (YYY = 1..6) that cover operators, replications and sequences, top level and in a replication;
  corpus   every sample message (quick: < 6000 bytes);
  cli      decode [-j] [-a] | encode [-j] [-a] through pybufrkit.main on a message pool.
"""
import contextlib
import io
import itertools
import json
import os

from mc.checks import codec_common as CC
from mc.engine import tree
from mc.engine.harness import Partial, Report, merge_all
from mc.engine.pool import run_shards, split
from mc.gen import bitmaps as BM
from mc.gen import corpus
from mc.gen import scenario as S
from mc.ref import codec, message, nested

PID = 'C09'


def four_formats(b):
    """-> None or (sig, detail) for one message (bytes)"""
    from pybufrkit.renderer import FlatJsonRenderer, FlatTextRenderer, NestedJsonRenderer, NestedTextRenderer
    from pybufrkit.utils import (EntityEncoder, flat_text_to_flat_json, nested_json_to_flat_json,
                                 nested_text_to_flat_json)
    with contextlib.redirect_stderr(io.StringIO()):
        try:
            CC.decoder().process(b, wire_template_data=False)
        except Exception as e:
            return ('skip', 'undecodable')
        try:
            msg = CC.decoder().process(b)
        except Exception as e:
            # the data decode, building the hierarchical view of them fails: there is no nested rendering of this message
            return ('hierarchical-view-raises:' + type(e).__name__, 'the message decodes without wiring; with wiring: %r' % (e,))
        try:
            fj = FlatJsonRenderer().render(msg)
        except Exception as e:
            return ('flat-json-raises:' + type(e).__name__, repr(e)[:160])
        outs = {}
        for name, rend, conv in (('flat-text', FlatTextRenderer, flat_text_to_flat_json),
                                 ('nested-json', NestedJsonRenderer, nested_json_to_flat_json),
                                 ('nested-text', NestedTextRenderer, nested_text_to_flat_json)):
            try:
                r = rend().render(msg)
            except Exception as e:
                return ('%s-render-raises:%s' % (name, type(e).__name__), repr(e)[:160])
            try:
                back = conv(r)
            except Exception as e:
                return ('%s-convert-raises:%s' % (name, type(e).__name__), '%r' % (e,))
            if back != fj:
                return ('%s-differs' % name, _diff(back, fj))
            outs[name] = (r, back)
        # hierarchical view: every value once, order recoverable
        td = msg.template_data.value
        nj = [p for sec in outs['nested-json'][0] for p in sec if p['name'] == 'template_data'][0]['value']
        for si in range(len(td.decoded_values_all_subsets)):
            e = nested.conservation(nj[si], [str(d) for d in td.decoded_descriptors_all_subsets[si]],
                                    list(td.decoded_values_all_subsets[si]))
            if e:
                return ('conservation', 'subset %d: %s' % (si, e))
            e = nested.replication_shape(nj[si])
            if e:
                return ('replication-shape', 'subset %d: %s' % (si, e))
            e = virtual_refs(nj[si], list(td.decoded_values_all_subsets[si]))
            if e:
                return ('virtual-attribute', 'subset %d: %s' % (si, e))
        # encoding from each format gives the same bytes
        try:
            ref = CC.encoder().process(fj, wire_template_data=False).serialized_bytes
        except Exception as e:
            return ('skip', 'not re-encodable: ' + type(e).__name__)
        for name, (r, back) in outs.items():
            try:
                got = CC.encoder().process(back, wire_template_data=False).serialized_bytes
            except Exception as e:
                return ('encode-from-%s-raises:%s' % (name, type(e).__name__), repr(e)[:160])
            if got != ref:
                return ('encode-from-%s-differs' % name, 'bytes differ')
        # the serialised JSON text (what `decode -j` prints) encodes to the same bytes
        try:
            text = json.dumps(fj, cls=EntityEncoder)
            got = CC.encoder().process(text, wire_template_data=False).serialized_bytes
        except Exception as e:
            return ('encode-from-json-text-raises:' + type(e).__name__, repr(e)[:160])
        if got != ref:
            return ('encode-from-json-text-differs', 'bytes differ')
    return None


def virtual_refs(nodes, values):
    """every virtual attribute must show a value that exists in the flat data (it is a reference, not new data)"""
    pool = list(values)

    def walk(ns):
        for n in ns:
            for a in n.get('attributes', []):
                if a.get('virtual') and not any(nested.same_value(a['value'], v) for v in pool):
                    return 'virtual attribute %s=%r is not a value of the flat data' % (a['id'], a['value'])
                r = walk([a])
                if r:
                    return r
            if 'factor' in n:
                r = walk([n['factor']])
                if r:
                    return r
            if 'members' in n:
                ms = n['members']
                if n['id'][:1] == '1' and 'value' not in n:
                    for rep in ms:
                        r = walk(rep)
                        if r:
                            return r
                else:
                    r = walk(ms)
                    if r:
                        return r
        return None
    return walk(nodes)


def _diff(a, b):
    if len(a) != len(b):
        return 'section count %d vs %d' % (len(a), len(b))
    for i, (x, y) in enumerate(zip(a, b)):
        if x != y:
            if len(x) != len(y):
                return 'section %d: %d parameters vs %d' % (i, len(x), len(y))
            for j, (p, q) in enumerate(zip(x, y)):
                if p != q:
                    if isinstance(p, list) and isinstance(q, list) and p and isinstance(p[0], list):
                        for si, (u, v) in enumerate(zip(p, q)):
                            if u != v:
                                k = next((t for t, (m, n) in enumerate(zip(u, v)) if m != n), min(len(u), len(v)))
                                return ('section %d subset %d: %d values vs %d, first difference at %d: %r vs %r'
                                        % (i, si, len(u), len(v), k, u[k:k + 2], v[k:k + 2]))
                        return 'section %d: subset count %d vs %d' % (i, len(p), len(q))
                    return 'section %d parameter %d: %r vs %r' % (i, j, p, q)
    return 'equal?'


# ------------------------------------------------------------------------------------------
ALPHA = [b'a', b' ', b"'", b'"', b'\\', b'b', b'#', b'>', b'-', b'=', b'\xe9', b'\xff']
STRING_TEMPLATES = [
    ('alone', lambda n: [208000 + n, 1011, 208000]),
    ('first', lambda n: [208000 + n, 1011, 208000, 1001]),
    ('assoc', lambda n: [204002, 31021, 208000 + n, 1011, 208000, 204000, 5002]),
    ('repl', lambda n: [208000 + n, 102002, 1011, 2001]),
    ('205', lambda n: [205000 + n, 1001]),
]


def run_strings(args):
    n, firsts = args
    p = Partial()
    B, D = S.tables_for(33)
    for first in firsts:
        for rest in itertools.product(ALPHA, repeat=n - 1):
            sval = first + b''.join(rest)
            for tname, mk in STRING_TEMPLATES:
                descs = mk(n)
                for comp in (False, True):
                    p.n['exec'] += 1

                    def chooser(info, comp=comp):
                        if info['kind'] == 'str':
                            return [sval, sval[::-1]] if comp else sval
                        v = 1 if info['width'] > 1 else 0
                        return [v, v] if comp else v
                    buf, subs, notes, nb = codec.encode(B, D, descs, 2 if comp else 1, comp, chooser)
                    b = message.build(message.Spec(descs=descs, nsub=2 if comp else 1, compressed=comp), buf)[0]
                    r = four_formats(b)
                    cls = ''.join(sorted({c if c in "'\"\\ #>=b-" else ('8' if ord(c) > 127 else 'a') for c in sval.decode('latin-1')}))
                    p.outcome((tname, comp, cls))
                    if r and r[0] != 'skip':
                        p.violation('%s|string|%s' % (r[0], tname), {'value': sval, 'descs': descs, 'compressed': comp, 'bytes': b}, r[1])
    return p


def fmt_body(descs, env):
    def body(ctx):
        try:
            b, spec, subs, notes = S.build_message(ctx, descs, nsub=env['nsub'], compressed=env['compressed'],
                                                   sec2=env.get('sec2'), edition=env.get('edition', 4))
        except codec.RefError as e:
            return {'skip': 'ref:' + str(e)[:40]}
        if notes:
            return {'skip': 'envelope:' + notes[0][:40]}
        r = four_formats(b)
        if r and r[0] == 'skip':
            return {'skip': 'formats:' + r[1]}
        res = {'outcome': S.outcome_class(subs, env['compressed']), 'bytes': b}
        if r:
            res['viol'] = r
        return res
    return body


CC.FACTORIES['formats'] = fmt_body


def run_structs(args):
    structs, env = args
    p = Partial()
    st = tree.Stats()
    for name, descs, queues, free in structs:
        def body(ctx, descs=descs, queues=queues, free=free):
            try:
                build = S.build_distinct_message if env.get('distinct') else S.build_struct_message
                b, spec, subs, notes = build(ctx, descs, queues=queues, free=free, nsub=env['nsub'],
                                             compressed=env['compressed'],
                                             variant_of_subset=env.get('vmap') or [0] * env['nsub'])
            except codec.RefError:
                return {'skip': 1}
            if notes and not env.get('ambiguous_ok'):
                return {'skip': 1}
            return {'r': four_formats(b), 'bytes': b, 'links': len(subs[0].links)}

        def on_leaf(ctx, res, name=name, descs=descs, queues=queues, free=free):
            p.n['exec'] += 1
            if 'skip' in res:
                p.n['envelope_skipped'] += 1
                return
            p.outcome((name.split('|')[0], name.split('|')[1].split('.')[0] if name.startswith('nd') else None, res['links'],
                       env['compressed']))
            r = res['r']
            if r and r[0] != 'skip':
                parts = name.split('|')
                p.violation('%s|bitmap|%s' % (r[0], parts[1].split('.')[0]),
                            {'struct': [name, descs, queues, free], 'env': env, 'choices': ctx.vector()}, r[1],
                            observed=res['bytes'])
        tree.explore(body, 0, on_leaf, st)
    p.n['nodes'] += st.nodes
    p.n['edges'] += st.edges
    return p


def run_freeform(args):
    """free-form programs (mc.gen.freeform) x data patterns: whatever the decoder reads, the four renderings must carry it"""
    from mc.gen import freeform as F
    progs, patterns, envs = args
    p = Partial()
    for name, descs in progs:
        p.n['nodes'] += 1
        for pat in patterns:
            for nsub, comp in envs:
                b = F.build(descs, pat, nsub, comp)
                p.n['exec'] += 1
                p.n['edges'] += 1
                r = four_formats(b)
                if r and r[0] == 'skip':
                    p.n['undecodable'] += 1
                    continue
                p.outcome((name.split('|')[0], nsub, comp))
                if r:
                    p.violation('%s|freeform|%s' % (r[0], name.split('|')[0]),
                                {'name': name, 'descs': descs, 'pattern': pat, 'nsub': nsub, 'compressed': comp}, r[1], observed=b)
    return p


# ------------------------------------------------------------------------------------------
# renderer / converter objects used for several messages: what one rendered before must not show in the next rendering
def _history_pool():
    """small messages with different features (attributes, compressed, characters with quotes, data not present, section 2)"""
    B, D = S.tables_for(33)
    defs = [
        ('plain-s2', [1001, 5002, 1011], 1, False, b'\x01\x02'),
        ('comp', [301001, 12101, 1011], 2, True, None),
        ('qa', [1001, 5002, 222000, 101002, 31031, 33007, 33007], 1, False, None),
        ('repl-204', [102002, 204002, 31021, 1001, 204000, 2001, 221001, 12101], 2, False, None),
    ]
    out = []
    for name, descs, nsub, comp, s2 in defs:
        cnt = [0]

        def ch(info):
            cnt[0] += 1
            if info.get('role') == 'bit':
                v = 0
            elif info['kind'] == 'str':
                v = (b'a\'b"c #>' + bytes([65 + cnt[0] % 26]) * 20)[:info['width'] // 8]
                return [v, v[::-1]] if comp else v
            else:
                v = (3 * cnt[0] + 1) % ((1 << info['width']) - 1) if info['width'] > 1 else 0
            if comp:
                return [v] * nsub if info.get('role') else [v, min(v + 1, (1 << info['width']) - 2)]
            return v
        buf, subs, notes, nb = codec.encode(B, D, descs, nsub, comp, ch)
        out.append((name, message.build(message.Spec(descs=descs, nsub=nsub, compressed=comp, sec2=s2), buf)[0]))
    return out


HIST_KINDS = ['FT', 'FJ', 'NT', 'NJ', 'cFT', 'cNJ', 'cNT']


def _hist_world():
    from pybufrkit.renderer import FlatJsonRenderer, FlatTextRenderer, NestedJsonRenderer, NestedTextRenderer
    return {'FT': FlatTextRenderer(), 'FJ': FlatJsonRenderer(), 'NT': NestedTextRenderer(), 'NJ': NestedJsonRenderer()}


def _hist_apply(world, kind, msg):
    from pybufrkit.utils import flat_text_to_flat_json, nested_json_to_flat_json, nested_text_to_flat_json
    try:
        if kind[0] == 'c':
            r = world[kind[1:]].render(msg)
            conv = {'cFT': flat_text_to_flat_json, 'cNJ': nested_json_to_flat_json, 'cNT': nested_text_to_flat_json}[kind]
            return repr(conv(r))
        return repr(world[kind].render(msg))
    except Exception as e:
        return 'EXC ' + type(e).__name__ + ' ' + str(e)[:60]


def renderer_goldens():
    """every operation as the only thing its process ever did (one fresh Python process per operation)"""
    import subprocess
    import sys
    from mc.engine.harness import VERIF
    n = len(HIST_KINDS) * len(_history_pool())
    procs = [subprocess.Popen([sys.executable, '-m', 'mc.checks.c09', 'golden', str(k)], cwd=VERIF, stdout=subprocess.PIPE,
                              stderr=subprocess.PIPE, text=True) for k in range(n)]
    out = []
    for pr in procs:
        o, e = pr.communicate(timeout=600)
        if pr.returncode != 0:
            raise RuntimeError('golden process failed: ' + e[-300:])
        out.append(json.loads(o))
    return out


def golden_main(n_):
    import sys
    pool = _history_pool()
    ev = [(k, i) for k in HIST_KINDS for i in range(len(pool))]
    k, i = ev[n_]
    sys.stdout.write(json.dumps(_hist_apply(_hist_world(), k, CC.decoder().process(pool[i][1]))))
    return 0


def run_renderer_histories(args):
    """every sequence of `length` operations (renderer or render+convert-back kind x pool message) on ONE set of renderer
    objects and ONE decoded object per message; each step must give what fresh objects give"""
    firsts, length = args[:2]
    p = Partial()
    pool = _history_pool()
    ev = [(k, i) for k in HIST_KINDS for i in range(len(pool))]
    golden = {}
    for n_, (k, i) in enumerate(ev):
        golden[(k, i)] = args[2][n_] if len(args) > 2 else _hist_apply(_hist_world(), k, CC.decoder().process(pool[i][1]))
        if golden[(k, i)].startswith('EXC '):
            p.violation('renderer-history-golden|' + k, {'history': [[k, i]]}, '%s of %s with fresh objects: %s' % (k, pool[i][0], golden[(k, i)]))
    for first in firsts:
        for rest in itertools.product(range(len(ev)), repeat=length - 1):
            h = (first,) + rest
            world = _hist_world()
            msgs = [CC.decoder().process(b) for _, b in pool]
            p.n['exec'] += 1
            for step, j in enumerate(h):
                k, i = ev[j]
                got = _hist_apply(world, k, msgs[i])
                p.n['renderings'] += 1
                if got != golden[(k, i)]:
                    p.violation('renderer-history|%s|after-%s' % (k, ev[h[step - 1]][0] if step else 'nothing'),
                                {'history': [list(ev[x]) for x in h[:step + 1]]},
                                '%s of message %s after %r on the same renderer / message objects differs from the result of '
                                'fresh objects' % (k, pool[i][0], [(ev[x][0], pool[ev[x][1]][0]) for x in h[:step]]))
                    break
                p.outcome((k, i))
    p.n['nodes'] += p.n['renderings'] + 1
    p.n['edges'] += p.n['renderings']
    return p


def run_zero_subsets(_):
    """messages without subsets (editions x section 2 x compression flag x descriptor lists): rendered, converted, encoded"""
    p = Partial()
    for ed in (2, 3, 4):
        for s2 in (None, b'\x01\x02'):
            for comp in (False,):      # compressed data without subsets: whether columns are present is not defined
                for descs in ([1001], [301001, 12101], [101000, 31001, 1001], [201130, 5002, 201000, 222000, 101001, 31031, 33007]):
                    p.n['exec'] += 1
                    b = message.build(message.Spec(edition=ed, sec2=s2, descs=descs, nsub=0, compressed=comp), b'')[0]
                    r = four_formats(b)
                    p.outcome((ed, s2 is not None, comp, len(descs), r[0] if r else None))
                    if r and r[0] == 'skip':
                        p.violation('zero-subsets|' + r[1].split(':')[0], {'edition': ed, 'sec2': s2, 'compressed': comp, 'descs': descs, 'bytes': b},
                                    'a message without subsets: ' + r[1])
                    elif r:
                        p.violation('%s|zero-subsets' % r[0], {'edition': ed, 'sec2': s2, 'compressed': comp, 'descs': descs, 'bytes': b}, r[1])
    p.n['nodes'], p.n['edges'] = p.n['exec'] + 1, p.n['exec']
    return p


def dnp_structs():
    """221YYY spans that cover operators, replications and sequences (not only plain elements).  Which descriptors FM-94
    wants counted is not judged here: the renderings only have to agree with the implementation's own flat result."""
    out = []
    inner = [('op201', [201130, 12001, 12002, 201000]), ('op208', [208002, 1011, 12001, 208000]),
             ('R2', [102002, 12001, 12002]), ('R1x1', [101001, 12001]), ('D', [102000, 31001, 12001, 1002]),
             ('seq', [301011, 12001]), ('seq2', [301001, 12001, 301011]), ('plain', [12001, 1002, 12002])]
    for iname, body in inner:
        for y in range(1, 7):
            out.append(('dnp|%s.%d' % (iname, y), [1001, 221000 + y] + body + [12003, 1002, 12004], [[]], [1]))
            out.append(('dnp|%s.%d-in-R2' % (iname, y), [100000 + (len(body) + 3) * 1000 + 2, 221000 + y] + body + [12003, 1002], [[]], [1, 1]))
    return out


def run_corpus(msgs):
    p = Partial()
    for name, k, m in msgs:
        p.n['exec'] += 1
        r = four_formats(m)
        if r and r[0] == 'skip':
            p.n['skipped'] += 1
            p.hist[r[1]] += 1
            continue
        pm = message.parse(m)
        p.outcome((tuple(pm.descs[:4]), pm.compressed))
        if r:
            p.violation(r[0] + '|corpus', {'file': name, 'index': k}, r[1])
    return p


def run_cli_part(_):
    """decode in each of the 4 formats through the command line, encode the printed text back: identical bytes"""
    from mc.engine.cli import run_cli
    p = Partial()
    scratch = os.environ.get('VERIF_SCRATCH') or '/dev/shm'
    fin, ftxt, fout = [os.path.join(scratch, 'c09_%d.%s' % (os.getpid(), x)) for x in ('bufr', 'txt', 'out')]
    B, D = S.tables_for(33)
    pool = [([1001, 5002, 208003, 1011, 208000, 8042], 1, False), ([101002, 2001, 12101, 10], 2, True),
            ([204003, 31021, 1001, 5002, 204000, 20003], 1, False),
            ([1001, 5002, 222000, 101002, 31031, 33007, 33007], 2, False)]
    try:
        for descs, nsub, comp in pool:
            def ch(info):
                if info['kind'] == 'str':
                    v = b"q'\"x"[:info['width'] // 8].ljust(info['width'] // 8, b'#')
                elif info.get('role') == 'bit':
                    v = 0
                else:
                    v = (5 + info['index']) % ((1 << info['width']) - 1)
                return [v] * nsub if comp else v
            buf, subs, notes, nb = codec.encode(B, D, descs, nsub, comp, ch)
            b = message.build(message.Spec(descs=descs, nsub=nsub, compressed=comp), buf)[0]
            with open(fin, 'wb') as f:
                f.write(b)
            for flags in ([], ['-j'], ['-a'], ['-a', '-j']):
                p.n['exec'] += 1
                case = {'descs': descs, 'flags': flags, 'compressed': comp}
                out, err, exc, code = run_cli(['decode'] + flags + [fin])
                if exc is not None or not out.strip():
                    p.violation('cli-decode-fails|%s' % ''.join(flags), case, '%r %s' % (exc, err[-200:]))
                    continue
                text = out
                with open(ftxt, 'w') as f:
                    f.write(text)
                if os.path.exists(fout):
                    os.remove(fout)
                out2, err2, exc2, code2 = run_cli(['encode'] + flags + [ftxt, fout])
                p.outcome((tuple(flags), comp, exc2 is None))
                if exc2 is not None or not os.path.exists(fout):
                    p.violation('cli-encode-fails|%s' % ''.join(flags), case, '%r %s' % (exc2, err2[-300:]))
                    continue
                got = open(fout, 'rb').read()
                if got != b:
                    p.violation('cli-roundtrip-bytes|%s' % ''.join(flags), case, 'decode %s | encode %s does not reproduce the message'
                                % (flags, flags))
    finally:
        for f in (fin, ftxt, fout):
            if os.path.exists(f):
                os.remove(f)
    return p


def replay(part, case):
    if part == 'renderer-histories':
        pool = _history_pool()
        ev = [(k, i) for k in HIST_KINDS for i in range(len(pool))]
        h = [ev.index(tuple(x)) for x in case['history']]
        p = Partial()
        world, msgs = _hist_world(), [CC.decoder().process(b) for _, b in pool]
        got = None
        for j in h:
            got = _hist_apply(world, ev[j][0], msgs[ev[j][1]])
        k, i = ev[h[-1]]
        gold = renderer_goldens()[h[-1]]
        if len(h) == 1 and gold.startswith('EXC '):
            return [{'sig': 'renderer-history-golden|' + k, 'detail': gold}]
        if got != gold:
            return [{'sig': 'renderer-history|%s|after-%s' % (k, ev[h[-2]][0] if len(h) > 1 else 'nothing'), 'detail': 'differs'}]
        return []
    if part.startswith('freeform'):
        from mc.gen import freeform as F
        r = four_formats(F.build(case['descs'], case['pattern'], case['nsub'], case['compressed']))
        return [{'sig': '%s|freeform|%s' % (r[0], case['name'].split('|')[0]), 'detail': r[1]}] if r and r[0] != 'skip' else []
    if part == 'corpus':
        from mc.gen.corpus import TESTS, scan
        m = scan(open(os.path.join(TESTS, case['file']), 'rb').read())[case['index']]
        p = run_corpus([(case['file'], case['index'], m)])
        return [{'sig': v['sig'], 'detail': v['detail']} for v in p.viol]
    if part == 'zero-subsets':
        r = four_formats(case['bytes'])
        if r and r[0] == 'skip':
            return [{'sig': 'zero-subsets|' + r[1].split(':')[0], 'detail': r[1]}]
        return [{'sig': '%s|zero-subsets' % r[0], 'detail': r[1]}] if r else []
    if part == 'strings':
        r = four_formats(case['bytes'])
        return [{'sig': r[0], 'detail': r[1]}] if r and r[0] != 'skip' else []
    if part == 'cli':
        p = run_cli_part(None)
        return [{'sig': v['sig'], 'detail': v['detail']} for v in p.viol
                if v['case']['descs'] == case['descs'] and v['case']['flags'] == case['flags']]
    if part.startswith(('bitmap', 'data-not-present')):
        s = case['struct']
        p = run_structs(([(s[0], s[1], [[tuple(x) for x in q] for q in s[2]], s[3])], case['env']))
        return [{'sig': v['sig'], 'detail': v['detail']} for v in p.viol]
    return CC.replay_tree(case)


def main(tier, seed):
    rep = Report(PID, tier, seed)
    rep.rule = ('one execution = one message rendered in four formats, converted back three ways, encoded five ways, and its '
                'hierarchical view judged; outcome classes as in C01 (tree), (template, compression, character classes) for '
                'strings')
    rep.trusted_base = ['mc.ref.nested (documented traversal, conservation); the flat JSON rendering is the comparison base '
                        '(its content is C01\'s subject)']
    rep.assumptions = ['messages the decoder rejects or the encoder cannot re-encode (table version not bundled) are skipped '
                       'and counted']
    n = 2 if tier == 'quick' else 3
    p = merge_all(run_shards(run_strings, [(n, [a]) for a in ALPHA]))
    p.n['nodes'], p.n['edges'] = p.n['exec'] + 1, p.n['exec']
    rep.add_part('strings', p, bounds={'length': n, 'alphabet': [a.decode('latin-1') for a in ALPHA],
                                       'templates': [t[0] for t in STRING_TEMPLATES], 'compression': [False, True]})
    plan = [('tree-u1', dict(k=1, c=1, nested=True, small_sigma=False), dict(nsub=1, compressed=False), 1),
            ('tree-c2', dict(k=1, c=1, nested=True), dict(nsub=2, compressed=True), 0),
            ('tree-u2-ed3', dict(k=1, c=1), dict(nsub=2, compressed=False, edition=3, sec2=b'\x01\x02'), 0)]
    if tier == 'thorough':
        plan = [('tree-u1', dict(k=2, c=1, nested=True), dict(nsub=1, compressed=False), 1),
                ('tree-c2', dict(k=2, c=1, nested=True), dict(nsub=2, compressed=True), 1),
                ('tree-u2-ed3', dict(k=1, c=1, nested=True, small_sigma=False), dict(nsub=2, compressed=False, edition=3, sec2=b'\x01\x02'), 1)]
    for name, pargs, env, bound in plan:
        pool = CC.template_pool(tier, **pargs)
        p = merge_all(run_shards(CC.run_tree, [(s, env, bound, 'formats') for s in split(pool, 64)]))
        rep.add_part(name, p, bounds=dict(pargs, templates=len(pool), deviations=bound,
                                          **{k: (v.hex() if isinstance(v, bytes) else v) for k, v in env.items()}))
    L = 0 if tier == 'quick' else 1
    for name, structs, env in (('bitmap-chain1-u1', list(BM.chain1(L + 1)), dict(nsub=1, compressed=False)),
                               ('bitmap-chain1-c2', list(BM.chain1(L)), dict(nsub=2, compressed=True)),
                               ('bitmap-chain2-u1', list(BM.chain2(L)), dict(nsub=1, compressed=False)),
                               ('bitmap-chain1-u2-diff', list(BM.chain1(L, 2)), dict(nsub=2, compressed=False, vmap=[0, 1])),
                               ('bitmap-chain1-u3-diff', list(BM.chain1(0, 2)), dict(nsub=3, compressed=False, vmap=[0, 1, 0])),
                               ('bitmap-in-replication', list(BM.wrapped(BM.chain1(0), 2, True)), dict(nsub=1, compressed=False)),
                               # nested delayed replications: subsets with different counts, among them pairs whose expanded
                               # descriptor lists coincide although the structures differ
                               ('nested-delayed-u2', list(BM.nested_delayed(2, 2, 1 if tier == 'quick' else 2, 2)),
                                dict(nsub=2, compressed=False, vmap=[0, 1], distinct=True)),
                               ('nested-delayed-u3', list(BM.nested_delayed(2, 2, 1, 3, colliding_only=True)),
                                dict(nsub=3, compressed=False, vmap=[0, 1, 2], distinct=True)),
                               ('trailing-class33-u1', list(BM.trailing_class33(L)) + list(BM.trailing_class33_after_chain(L)), dict(nsub=1, compressed=False, distinct=True)),
                               ('trailing-class33-c2', list(BM.trailing_class33(L)), dict(nsub=2, compressed=True, distinct=True)),
                               ('data-not-present-spans', dnp_structs(), dict(nsub=1, compressed=False, ambiguous_ok=True)),
                               ('data-not-present-spans-c2', dnp_structs(), dict(nsub=2, compressed=True, ambiguous_ok=True))):
        p = merge_all(run_shards(run_structs, [(s, env) for s in split(structs, 64)]))
        rep.add_part(name, p, bounds=dict(structures=len(structs), **env))
    rep.add_part('zero-subsets', run_zero_subsets(None), bounds={'editions': [2, 3, 4], 'section2': 2, 'compression_flag': 2, 'descriptor_lists': 4})
    nev = len(HIST_KINDS) * len(_history_pool())
    hl = 2 if tier == 'quick' else 3
    rgold = renderer_goldens()
    p = merge_all(run_shards(run_renderer_histories, [([i], hl, rgold) for i in range(nev)]))
    rep.add_part('renderer-histories', p, bounds={'operations': HIST_KINDS, 'messages': [n_ for n_, _ in _history_pool()],
                                                  'history_length': hl, 'histories': nev ** hl},
                 rule='every sequence of renderings / render-and-convert-back operations on one set of renderer objects and one '
                      'decoded object per message; each step is compared with the result of fresh objects')
    from mc.gen import freeform as F
    if tier == 'quick':
        ff = [('freeform-operators', F.operator_programs(3, 2) + F.focused_programs(5, 2), [0, 3, 5], [(1, False), (2, True)]),
              ('freeform-markers', F.marker_programs(3, 2) + F.marker_programs(3, 2, extra_leaves=(), base='B'), [0, 3, 5],
               [(1, False), (2, False)])]
    else:
        ff = [('freeform-operators', F.operator_programs(4, 2) + F.focused_programs(6, 3), [0, 2, 3, 4, 5],
               [(1, False), (2, False), (2, True)]),
              ('freeform-markers', F.marker_programs(4, 3) + F.marker_programs(4, 3, base='B'), [0, 2, 3, 4, 5],
               [(1, False), (2, False), (2, True)])]
    for name, progs, pats, envs in ff:
        p = merge_all(run_shards(run_freeform, [(s_, pats, envs) for s_ in split(progs, 128)]))
        p.sample({'program': progs[len(progs) // 2][0], 'descs': progs[len(progs) // 2][1]})
        rep.add_part(name, p, bounds={'programs': len(progs), 'patterns': [F.PATTERNS[i][0] for i in pats], 'envelopes': envs,
                                      'grammar': 'mc.gen.freeform: nested 204, operators over class 31, markers in loops ... '
                                                 '(outside the reference envelope; the flat JSON is the base line)'})
    msgs = list(corpus.messages(max_bytes=6000 if tier == 'quick' else None))
    p = merge_all(run_shards(run_corpus, split(msgs, 64)))
    p.n['nodes'], p.n['edges'] = p.n['exec'] + 1, p.n['exec']
    p.sample({'file': msgs[0][0], 'index': msgs[0][1]})
    rep.add_part('corpus', p, bounds={'messages': len(msgs)})
    p = run_cli_part(None)
    p.n['nodes'], p.n['edges'] = p.n['exec'] + 1, p.n['exec']
    rep.add_part('cli', p, bounds={'invocations': p.n['exec'] * 2})
    return rep.finish()


if __name__ == '__main__':
    import sys
    if len(sys.argv) > 2 and sys.argv[1] == 'golden':
        sys.exit(golden_main(int(sys.argv[2])))
