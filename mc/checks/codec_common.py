"""
Machinery shared by the codec checks (C01, C02, C05, C06 ...): the generated
template pool, the E1 body that builds a message with the reference encoder
and judges the implementation, and sharded execution.
"""
from mc.engine import tree
from mc.engine.harness import Partial
from mc.gen import grammar as G
from mc.gen import scenario as S
from mc.ref import codec

_decoder = None
_encoder = None


def decoder():
    global _decoder
    if _decoder is None:
        from pybufrkit.decoder import Decoder
        _decoder = Decoder()
    return _decoder


_cdecoder = None


def compiled_decoder():
    global _cdecoder
    if _cdecoder is None:
        from pybufrkit.decoder import Decoder
        _cdecoder = Decoder(compiled_template_cache_max=4)
    return _cdecoder


def encoder():
    global _encoder
    if _encoder is None:
        from pybufrkit.encoder import Encoder
        _encoder = Encoder()
    return _encoder


_cencoder = None


def compiled_encoder():
    global _cencoder
    if _cencoder is None:
        from pybufrkit.encoder import Encoder
        _cencoder = Encoder(compiled_template_cache_max=4)
    return _cencoder


def template_pool(tier, k=2, c=1, nested=False, small_sigma=True):
    """[(name, descriptor list)] de-duplicated by descriptor list, simplest first"""
    sigma = G.SIGMA_E_SMALL if small_sigma else G.SIGMA_E
    seen, out = set(), []
    for name, items in G.templates(k=k, c=c, sigma=sigma, nested=nested):
        descs = tuple(G.flatten(items))
        if descs in seen:
            continue
        seen.add(descs)
        out.append((name, list(descs)))
    return out


def decode_body(descs, env):
    """E1 body for 'R encodes -> implementation decodes -> compare'.  env: dict(nsub, compressed, edition, ...)"""
    def body(ctx):
        try:
            b, spec, subs, notes = S.build_message(ctx, descs, nsub=env['nsub'], compressed=env['compressed'],
                                                   edition=env.get('edition', 4), version=env.get('version', 33),
                                                   sec2=env.get('sec2'), thorough=env.get('thorough', False),
                                                   nbinc_choice=env.get('nbinc', False))
        except codec.RefError as e:
            return {'outcome': ('ref-error', type(e).__name__), 'skip': 'ref:' + str(e)[:60]}
        if notes:
            return {'outcome': ('envelope',), 'skip': 'envelope:' + notes[0][:60]}
        st = S.impl_decode(decoder(), b)
        if st[0] == 'exc':
            return {'outcome': ('exc', st[1]),
                    'viol': ('decode-raises:' + st[1], 'decoding raised %s: %s' % (st[1], st[2][:200])),
                    'bytes': b}
        d = S.compare_subsets(st[1], subs)
        res = {'outcome': S.outcome_class(subs, env['compressed']), 'bytes': b}
        if d:
            res['viol'] = d
        return res
    return body


def run_tree(args):
    """args = (list of (name, descs), env, bound, body_factory name) -> Partial"""
    roots, env, bound, factory = args
    make = FACTORIES[factory]
    p = Partial()
    st = tree.Stats()
    for name, descs in roots:
        body = make(descs, env)

        def on_leaf(ctx, res, name=name, descs=descs):
            p.n['exec'] += 1
            if 'skip' in res:
                p.n['envelope_skipped'] += 1
                p.hist[res['skip'].split(':')[0] + ':' + res['skip'].split(':')[1][:40]] += 1
                return
            p.outcome(res['outcome'])
            if 'viol' in res:
                sig, detail = res['viol']
                p.violation('%s|%s' % (sig, name.split('+')[0] if '+' not in name else name),
                            {'descs': descs, 'env': env, 'choices': ctx.vector(), 'factory': factory},
                            detail, observed=res.get('bytes'))
            elif p.n['exec'] % 5000 == 1:
                p.sample({'template': name, 'descs': descs, 'env': env, 'message': res.get('bytes')})
        tree.explore(body, bound, on_leaf, st)
    p.n['nodes'] += st.nodes
    p.n['edges'] += st.edges
    return p


def replay_tree(case):
    make = FACTORIES[case['factory']]
    body = make(case['descs'], case['env'])
    ctx, res = tree.replay(body, case['choices'])
    if 'viol' in res:
        return [{'sig': res['viol'][0], 'detail': res['viol'][1]}]
    return []


FACTORIES = {'decode': decode_body}


# ------------------------------------------------------------------------------------------
# encode direction (C02)
def impl_input_values(subs, port, compressed):
    """the value lists handed to the implementation's encoder: reference values, but character fields as the
    user supplied them (short, long, None) so that padding / truncation is the implementation's job"""
    out = []
    for s, sub in enumerate(subs):
        vals = list(sub.values)
        for j, (kind, desc, width) in enumerate(sub.meta):
            key = (j, s)
            if key in port.str_inputs:
                vals[j] = port.str_inputs[key]
        out.append(vals)
    return out


def judge_compressed(got, spec, subs, descs, version=33):
    """Judge a compressed message written by the implementation by the statement of C02 (not by one layout)."""
    from mc.ref import message, tables
    from mc.ref.bits import BitBuf
    try:
        pm = message.parse(got)
    except Exception as e:
        return 'framing', 'cannot parse the encoded message: %r' % e
    if pm.descs != list(descs) or pm.nsub != spec.nsub or not pm.compressed:
        return 'section3', 'section 3 content differs'
    B, D = S.tables_for(version)
    try:
        subs2, notes, pos = codec.decode(B, D, descs, spec.nsub, True, pm.data)
    except Exception as e:
        return 'unreadable', 'reference reader cannot read the data section: %r' % e
    port = codec.decode.last_port
    for s, (a, b) in enumerate(zip(subs2, subs)):
        if a.labels != b.labels:
            return 'labels', 'items differ'
        for j, (x, y) in enumerate(zip(a.raws, b.raws)):
            if x != y:
                return 'raw:%s' % b.meta[j][0], 'subset %d item %d (%s): reads back raw %r, given %r' % (s, j, b.labels[j], x, y)
    n = spec.nsub
    for j, (ckind, w, base, nb, incs) in enumerate(port.columns):
        col = [sub.raws[j] for sub in subs]
        if ckind == 'u':
            present = [r for r in col if r is not None]
            if not present:
                if base != (1 << w) - 1 or nb != 0:
                    return 'column-all-missing', 'item %d: all missing but base %r width %d' % (j, base, nb)
            elif len(present) == n and min(present) == max(present):
                if nb != 0 or base != present[0]:
                    return 'column-all-equal', 'item %d: all equal but base %r width %d' % (j, base, nb)
            else:
                if nb == 0:
                    return 'column-width0', 'item %d: entries differ but width 0' % j
                if base != min(present):
                    return 'column-base', 'item %d: base %r is not the minimum %r' % (j, base, min(present))
                for r, inc in zip(col, incs):
                    if (inc == (1 << nb) - 1) != (r is None):
                        return 'column-missing-mark', 'item %d: increment %r of %d bits for raw %r' % (j, inc, nb, r)
        elif ckind == 's':
            if all(c == col[0] for c in col):
                if nb != 0 or base != col[0]:
                    return 'string-all-equal', 'item %d: equal strings but base %r width %d' % (j, base, nb)
            elif nb * 8 != w or base != b'\0' * (w // 8):
                return 'string-differ', 'item %d: differing strings need zero base and full width (base %r, %d)' % (j, base, nb)
        elif ckind == 'i':
            if nb != 0:
                return 'refval-width', 'item %d: new reference value with width %d' % (j, nb)
    # framing: the message must be exactly what R builds around the consumed data bits
    buf = BitBuf()
    buf.put(int.from_bytes(pm.data, 'big') >> (len(pm.data) * 8 - pos) if pos else 0, pos)
    exp, info = message.build(spec, buf)
    if exp != got:
        return 'framing', 'sections/padding differ from an independently built message around the same data bits'
    return None


def json_text(fj):
    """the flat JSON as text, written without the library: bytes become text (latin-1), everything ASCII-escaped"""
    import json

    def conv(x):
        if isinstance(x, bytes):
            return x.decode('latin-1')
        if isinstance(x, (list, tuple)):
            return [conv(i) for i in x]
        return x
    return json.dumps(conv(fj))


def encode_body(descs, env):
    from mc.ref import message

    def body(ctx):
        try:
            b, spec, subs, notes = S.build_message(ctx, descs, nsub=env['nsub'], compressed=env['compressed'],
                                                   edition=env.get('edition', 4), version=env.get('version', 33),
                                                   sec2=env.get('sec2'), thorough=env.get('thorough', False))
        except codec.RefError as e:
            return {'outcome': ('ref-error',), 'skip': 'ref:' + str(e)[:60]}
        if notes:
            return {'outcome': ('envelope',), 'skip': 'envelope:' + notes[0][:60]}
        port = codec.encode.last_port
        fj = message.flat_json(spec, impl_input_values(subs, port, env['compressed']))
        import contextlib, io
        with contextlib.redirect_stderr(io.StringIO()):
            try:
                msg = encoder().process(fj, wire_template_data=False)
            except Exception as e:
                return {'outcome': ('exc', type(e).__name__), 'bytes': b,
                        'viol': ('encode-raises:' + type(e).__name__, 'encoding raised %s: %s' % (type(e).__name__, str(e)[:200]))}
        got = msg.serialized_bytes
        res = {'outcome': S.outcome_class(subs, env['compressed']), 'bytes': b}
        # the same values handed over as serialised JSON text (character values arrive as str, not bytes), as str and as bytes
        # (for every message with a character field, and for the default-valued execution of every template)
        forms = ()
        if any(m[0] == 'str' for m in subs[0].meta) or not any(c for lab, c in ctx.vector() if lab.startswith(('v.', 'col.'))):
            text = json_text(fj)
            forms = (('json-str', text), ('json-bytes', text.encode('ascii')))
        for form, arg in forms:
            with contextlib.redirect_stderr(io.StringIO()):
                try:
                    got2 = encoder().process(arg, wire_template_data=False).serialized_bytes
                except Exception as e:
                    res['viol'] = ('input-form-raises:%s:%s' % (form, type(e).__name__), 'the values given as %s: %s' % (form, str(e)[:160]))
                    return res
            if got2 != got:
                res['viol'] = ('input-form-differs:' + form, 'the same values given as %s encode to %s, as a Python list to %s'
                               % (form, got2.hex(), got.hex()))
                return res
        if not env['compressed']:
            if got != b:
                res['viol'] = ('bytes', 'encoded %s, independently built %s' % (got.hex(), b.hex()))
        else:
            d = judge_compressed(got, spec, subs, descs, env.get('version', 33))
            if d:
                res['viol'] = d
        return res
    return body


FACTORIES['encode'] = encode_body
