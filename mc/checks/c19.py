"""
C19 -- bit-level reading and writing are exact inverses for every width.

Parts (all complete enumerations):
  lattice    width 1..64 x values {0,1,2^(n-1),2^n-2,2^n-1} x bit offset 0..7 for
             unsigned write/read (+ missing rule), sign-magnitude write/read,
             in-place overwrite (set_uint) with bytes before and after, refusal of
             2^n and -1, BitReadError past the end at every (offset,width).
  sequences  E1 over all field sequences (types uint,int,bool,bin,bytes x widths
             {1,2,7,8,9,16,24,31,32,33,63,64}) of length <= L with <= d value
             deviations; writer and reader positions after every field, final
             bytes equal to R.bits.
Oracle: mc.ref.bits (Python int model).
"""
import itertools

from mc.engine import tree
from mc.engine.harness import Partial, Report, merge_all
from mc.engine.pool import run_shards, split
from mc.ref.bits import BitBuf, BitSrc, fit_bytes

PID = 'C19'
WIDTHS = (1, 2, 7, 8, 9, 16, 24, 31, 32, 33, 63, 64)


def _impl():
    from pybufrkit.bitops import get_bit_writer, get_bit_reader
    from pybufrkit.errors import BitReadError, PyBufrKitError
    return get_bit_writer, get_bit_reader, BitReadError, PyBufrKitError


def _snapshot(W):
    """(length, bits) of a writer without disturbing it"""
    n = W.get_pos()
    pad = (-n) % 8
    import copy
    W2 = copy.deepcopy(W)
    if pad:
        W2.write_bin('0' * pad)
    return n, W2.to_bytes()


def _finish_bytes(W):
    pad = (-W.get_pos()) % 8
    if pad:
        W.write_bin('0' * pad)
    return W.to_bytes()


# ---------------------------------------------------------------------------------------
# part 1: lattice
def lattice_case(case):
    """case = [kind, w, val, off]; returns (outcome, violations)"""
    get_bit_writer, get_bit_reader, BitReadError, PyBufrKitError = _impl()
    kind, w, val, off = case
    viol = []

    def bad(sig, detail, exp=None, obs=None):
        viol.append({'sig': sig, 'detail': detail, 'expected': exp, 'observed': obs})

    if kind == 'uint':
        W = get_bit_writer()
        M = BitBuf()
        if off:
            W.write_uint((1 << off) - 1, off)
            M.put((1 << off) - 1, off)
        W.write_uint(val, w)
        M.put(val, w)
        if W.get_pos() != M.n:
            bad('uint-writer-pos', 'writer at %d, model at %d' % (W.get_pos(), M.n))
        W.write_uint(0x5A, 8)
        M.put(0x5A, 8)
        b = _finish_bytes(W)
        M.pad_to_octet()
        if b != M.to_bytes():
            bad('uint-write-bits', 'bytes differ', M.to_bytes(), b)
        R = get_bit_reader(b)
        if off:
            R.read_uint(off)
        got = R.read_uint_or_none(w)
        exp = None if (w > 1 and val == (1 << w) - 1) else val
        if got != exp or (got is not None and type(got) is not int):
            bad('uint-read-value', 'read_uint_or_none(%d) -> %r, expected %r' % (w, got, exp), exp, got)
        if R.get_pos() != off + w:
            bad('uint-reader-pos', 'reader at %d, expected %d' % (R.get_pos(), off + w))
        if R.read_uint(8) != 0x5A:
            bad('uint-read-next', 'field after is not intact')
        R2 = get_bit_reader(b)
        if off:
            R2.read_uint(off)
        if R2.read_uint(w) != val:
            bad('uint-read-raw', 'read_uint differs')
        return 'uint:%s' % ('missing' if exp is None else 'value'), viol

    if kind == 'int':
        W = get_bit_writer()
        M = BitBuf()
        if off:
            W.write_uint(0, off)
            M.put(0, off)
        W.write_int(val, w)
        M.put_signmag(val, w)
        W.write_uint(0xA5, 8)
        M.put(0xA5, 8)
        b = _finish_bytes(W)
        M.pad_to_octet()
        if b != M.to_bytes():
            bad('int-write-bits', 'bytes differ', M.to_bytes(), b)
        R = get_bit_reader(b)
        if off:
            R.read_uint(off)
        got = R.read_int(w)
        if got != val:
            bad('int-read-value', 'read_int(%d) -> %r, expected %r' % (w, got, val), val, got)
        if R.get_pos() != off + w:
            bad('int-reader-pos', 'reader at %d, expected %d' % (R.get_pos(), off + w))
        return 'int:%s' % ('neg' if val < 0 else 'nonneg'), viol

    if kind == 'set':
        # bytes before (off bits of ones + one octet), field of w zero bits, one octet after
        W = get_bit_writer()
        M = BitBuf()
        W.write_uint(0xC3, 8)
        M.put(0xC3, 8)
        if off:
            W.write_uint((1 << off) - 1, off)
            M.put_ones(off)
        W.write_uint(0, w)
        M.put(0, w)
        W.write_uint(0xA5, 8)
        M.put(0xA5, 8)
        before = W.get_pos()
        try:
            W.set_uint(val, w, 8 + off)
        except Exception as e:
            bad('set-raises', 'set_uint(%d, %d, %d) raised %s: %s' % (val, w, 8 + off, type(e).__name__, e))
            return 'set:raise', viol
        M.overwrite(val, w, 8 + off)
        if W.get_pos() != before:
            bad('set-length-changed', 'stream length %d -> %d after overwriting %d bits' % (before, W.get_pos(), w),
                before, W.get_pos())
            return 'set:length', viol
        b = _finish_bytes(W)
        M.pad_to_octet()
        if b != M.to_bytes():
            bad('set-bits', 'bytes differ after overwrite', M.to_bytes(), b)
        return 'set:ok', viol

    if kind == 'overflow':
        W = get_bit_writer()
        if off:
            W.write_uint(0, off)
        try:
            W.write_uint(val, w)
        except Exception as e:
            return 'overflow:refused:' + type(e).__name__, viol
        bad('overflow-accepted', 'write_uint(%d, %d) was accepted' % (val, w))
        return 'overflow:accepted', viol

    if kind == 'ioverflow':
        # sign-magnitude field of w bits: magnitude has w-1 bits, so |val| >= 2^(w-1) does not fit and must be refused, and
        # the refusal leaves the writer where it was
        W = get_bit_writer()
        if off:
            W.write_uint(0, off)
        try:
            W.write_int(val, w)
        except Exception as e:
            if W.get_pos() != off:
                bad('int-overflow-residue', 'the refused write_int(%d, %d) left %d bit(s) in the stream (a refused write_uint / set_uint '
                    'leaves the writer untouched)' % (val, w, W.get_pos() - off))
            return 'ioverflow:refused:' + type(e).__name__, viol
        bad('int-overflow-accepted', 'write_int(%d, %d) was accepted (the magnitude needs more than %d bits)' % (val, w, w - 1))
        return 'ioverflow:accepted', viol

    if kind == 'binlen':
        # a binary string whose length is not the field width does not fit the field: refused, writer untouched
        W = get_bit_writer()
        if off:
            W.write_uint(0, off)
        try:
            W.write('1' * val, 'bin', w)
        except Exception as e:
            if W.get_pos() != off:
                bad('bin-length-residue', 'the refused write of a %d-character binary string into a %d-bit field left %d bit(s)'
                    % (val, w, W.get_pos() - off))
            return 'binlen:refused:' + type(e).__name__, viol
        bad('bin-length-accepted', 'a %d-character binary string was written into a %d-bit field (%d bits written)' % (val, w, W.get_pos() - off))
        return 'binlen:accepted', viol

    if kind == 'setoverflow':
        W = get_bit_writer()
        W.write_uint(0xC3, 8)
        if off:
            W.write_uint(0, off)
        W.write_uint(0, w)
        W.write_uint(0xA5, 8)
        before = _snapshot(W)
        try:
            W.set_uint(val, w, 8 + off)
        except Exception as e:
            if _snapshot(W) != before:
                bad('set-overflow-partial', 'refused set_uint(%d, %d) changed the stream' % (val, w))
            return 'setoverflow:refused:' + type(e).__name__, viol
        bad('set-overflow-accepted', 'set_uint(%d, %d, %d) was accepted' % (val, w, 8 + off))
        return 'setoverflow:accepted', viol

    if kind == 'pastend':
        # buffer of exactly off + w - 1 bits worth of whole octets -> read of w at off must fail
        nbytes = (off + w - 1) // 8
        R = get_bit_reader(b'\xff' * nbytes)
        try:
            if off:
                R.read_uint(off)
            if val < 3:
                [R.read_uint, R.read_uint_or_none, R.read_bin][val](w)
            elif val == 3:
                R.read_int(w)
            elif val == 4:
                R.read_bool()
            elif val == 5:
                R.read_bytes(w // 8)
            elif val == 6:
                R.read('bytes', w)
            else:
                R.read(['uint', 'int', 'bin'][val - 7], w)
        except BitReadError:
            return 'pastend:BitReadError', viol
        except Exception as e:
            bad('pastend-wrong-exception', 'read past end raised %s, not BitReadError' % type(e).__name__)
            return 'pastend:' + type(e).__name__, viol
        bad('pastend-accepted', 'read of %d bits at %d in %d octets succeeded' % (w, off, nbytes))
        return 'pastend:accepted', viol
    raise ValueError(kind)


def lattice_cases():
    for w in range(1, 65):
        vals = sorted({0, 1, 1 << (w - 1), max(0, (1 << w) - 2), (1 << w) - 1})
        for off in range(8):
            for v in vals:
                yield ['uint', w, v, off]
                yield ['set', w, v, off]
            if w >= 2:
                m = (1 << (w - 1)) - 1
                for v in sorted({0, 1, -1, m, -m, m - 1 if m > 1 else 0}):
                    yield ['int', w, v, off]
            else:
                yield ['int', 1, 0, off]              # one bit: the sign alone, the magnitude has no bits
                for v in (1, -1, 2):
                    yield ['ioverflow', 1, v, off]
            for k in sorted({w - 1, w + 1, 1, 2 * w} - {w, 0}):
                yield ['binlen', w, k, off]
            for v in (1 << w, -1, (1 << w) + 1):
                yield ['overflow', w, v, off]
                yield ['setoverflow', w, v, off]
            if w >= 2:
                h = 1 << (w - 1)
                for v in sorted({h, -h, h + 1, -(h + 1), (1 << w) - 1, -((1 << w) - 1), 1 << w, -(1 << w)}):
                    yield ['ioverflow', w, v, off]
            for which in (0, 1, 2):
                yield ['pastend', w, which, off]
            # every other typed read as well: sign-magnitude, boolean, bytes (octet aligned or not), the generic read()
            if w >= 2:
                yield ['pastend', w, 3, off]
                yield ['pastend', w, 8, off]
            if w == 1:
                yield ['pastend', w, 4, off]
            if w % 8 == 0:
                yield ['pastend', w, 5, off]
                yield ['pastend', w, 6, off]
            yield ['pastend', w, 7, off]
            yield ['pastend', w, 9, off]


def run_lattice(cases):
    p = Partial()
    for case in cases:
        outcome, viol = lattice_case(case)
        p.n['exec'] += 1
        p.outcome(outcome + ':w%d' % (case[1] % 8 == 0))
        for v in viol:
            p.violation('%s:w%s' % (v['sig'], _wclass(case[1])), case, v['detail'], v['expected'], v['observed'])
    return p


def _wclass(w):
    return 'lt8' if w < 8 else ('24' if w == 24 else ('mult8' if w % 8 == 0 else 'other'))


# ---------------------------------------------------------------------------------------
# part 2: field sequences (E1)
def field_kinds():
    ks = []
    for w in WIDTHS:
        ks.append(('uint', w))
    for w in WIDTHS:
        if w >= 2:
            ks.append(('int', w))
    ks.append(('bool', 1))
    for w in WIDTHS:
        ks.append(('bin', w))
    for w in (8, 16, 24, 32, 64):
        ks.append(('bytes', w))
    return ks


def value_options(kind, w):
    """option 0 is the default value; the others are deviations."""
    if kind == 'uint':
        o = [1 if w > 1 else 0, 0, 1 << (w - 1), max(0, (1 << w) - 2), (1 << w) - 1]
    elif kind == 'int':
        m = (1 << (w - 1)) - 1
        o = [1, 0, -1, m, -m]
    elif kind == 'bool':
        o = [False, True]
    elif kind == 'bin':
        o = ['0' * (w - 1) + '1', '0' * w, '1' * w, ('10' * w)[:w]]
    else:
        n = w // 8
        o = [b'A' * n, b'', b'B' * (n + 2), b' ' * n, b'\xff' * n, b'\xe9' + b'q' * (n - 1)] if n > 1 else \
            [b'A', b'', b'BCD', b' ', b'\xff', b'\xe9']
    seen, out = set(), []
    for x in o:
        if x not in seen:
            seen.add(x)
            out.append(x)
    return out


def seq_body(kinds):
    get_bit_writer, get_bit_reader, BitReadError, PyBufrKitError = _impl()

    def body(ctx):
        viol = []
        W = get_bit_writer()
        M = BitBuf()
        fields = []
        for i, (kind, w) in enumerate(kinds):
            opts = value_options(kind, w)
            v = opts[ctx.pick('f%d' % i, len(opts), 'D')]
            fields.append(v)
            if kind == 'uint':
                W.write(v, 'uint', w)
                M.put(v, w)
            elif kind == 'int':
                W.write(v, 'int', w)
                M.put_signmag(v, w)
            elif kind == 'bool':
                W.write(v, 'bool', 1)
                M.put(1 if v else 0, 1)
            elif kind == 'bin':
                W.write(v, 'bin', w)
                M.put(int(v, 2), w)
            else:
                W.write(v, 'bytes', w)
                M.put_bytes(fit_bytes(v, w // 8))
            if W.get_pos() != M.n:
                viol.append({'sig': 'seq-writer-pos:%s' % kind, 'detail': 'after field %d writer at %d, model at %d'
                             % (i, W.get_pos(), M.n), 'expected': M.n, 'observed': W.get_pos()})
                return 'pos', viol, fields
        b = _finish_bytes(W)
        M.pad_to_octet()
        if b != M.to_bytes():
            viol.append({'sig': 'seq-bytes:' + '+'.join(k for k, _ in kinds), 'detail': 'written bytes differ',
                         'expected': M.to_bytes(), 'observed': b})
        R = get_bit_reader(b)
        S = BitSrc(M.to_bytes())
        for i, (kind, w) in enumerate(kinds):
            got = R.read(kind, w)
            if kind == 'uint':
                exp = S.get(w)
            elif kind == 'int':
                exp = S.get_signmag(w)
            elif kind == 'bool':
                exp = bool(S.get(1))
            elif kind == 'bin':
                exp = format(S.get(w), '0%db' % w)
            else:
                exp = S.get_bytes(w // 8)
            if got != exp or type(got) is not type(exp):
                viol.append({'sig': 'seq-read:%s' % kind, 'detail': 'field %d (%s:%d) read %r, expected %r'
                             % (i, kind, w, got, exp), 'expected': exp, 'observed': got})
            if R.get_pos() != S.pos:
                viol.append({'sig': 'seq-reader-pos:%s' % kind, 'detail': 'after field %d reader at %d, model at %d'
                             % (i, R.get_pos(), S.pos), 'expected': S.pos, 'observed': R.get_pos()})
                break
        return 'ok', viol, fields
    return body


def run_sequences(args):
    roots, bound = args
    p = Partial()
    st = tree.Stats()
    for kinds in roots:
        body = seq_body(kinds)

        def on_leaf(ctx, result, kinds=kinds):
            outcome, viol, fields = result
            p.n['exec'] += 1
            p.outcome((tuple(k for k, _ in kinds), ctx.deviations(), M8(kinds)))
            if not p.samples and ctx.deviations():
                p.sample({'kinds': kinds, 'values': fields})
            for v in viol:
                p.violation(v['sig'], {'kinds': [list(k) for k in kinds], 'choices': ctx.vector()},
                            v['detail'], v['expected'], v['observed'])
        tree.explore(body, bound, on_leaf, st)
    p.n['nodes'] += st.nodes
    p.n['edges'] += st.edges
    p.n['max_depth'] = max(p.n['max_depth'], st.max_depth)
    return p


def M8(kinds):
    """alignment pattern of the field boundaries (mod 8), an outcome-class component"""
    pos, out = 0, []
    for _, w in kinds:
        pos += w
        out.append(pos % 8)
    return tuple(out)


# ---------------------------------------------------------------------------------------
# part 3: operation histories on ONE writer object (appends, in-place overwrites and observers interleaved)
HIST_APPEND = [('uint', 1), ('uint', 7), ('uint', 8), ('uint', 16), ('uint', 24), ('int', 9), ('bool', 1), ('bytes', 8),
               ('bin', 3), ('skip', 3), ('skip', 8)]
HIST_OPS = [('app',) + k for k in HIST_APPEND] + [('set', 0), ('set', 1), ('set', 2), ('obs',)]


def hist_body(ops):
    """ops: tuple over HIST_OPS.  ('set', j) overwrites the j-th most recent unsigned field written so far (if there is
    one) with a value that differs from what it holds; ('obs',) observes to_bytes() (when the stream is octet aligned)
    and get_pos() WITHOUT being the last operation.  After every operation the writer position must equal the model's,
    every observation must equal the model's bytes at that moment, and the final bytes are read back field by field."""
    get_bit_writer, get_bit_reader, BitReadError, PyBufrKitError = _impl()

    def body(ctx):
        viol = []
        W = get_bit_writer()
        M = BitBuf()
        fields = []          # (kind, width, bitpos, value) of what the stream holds
        nobs = 0
        for i, op in enumerate(ops):
            if op[0] == 'app':
                kind, w = op[1], op[2]
                pos = M.n
                if kind == 'uint':
                    v = ((0x5A5A5A >> i) & ((1 << w) - 1)) if ctx.pick('v%d' % i, 2, 'D') == 0 else (1 << w) - 1
                    W.write_uint(v, w)
                    M.put(v, w)
                elif kind == 'int':
                    v = [-77, 255, -255, 0][ctx.pick('v%d' % i, 4, 'D')]
                    W.write_int(v, w)
                    M.put_signmag(v, w)
                elif kind == 'bool':
                    v = [True, False][ctx.pick('v%d' % i, 2, 'D')]
                    W.write_bool(v)
                    M.put(1 if v else 0, 1)
                elif kind == 'bytes':
                    v = [b'Q', b'', b'xy'][ctx.pick('v%d' % i, 3, 'D')]
                    W.write_bytes(v, 1)
                    M.put_bytes(fit_bytes(v, 1))
                    v = fit_bytes(v, 1)
                elif kind == 'bin':
                    v = ['101', '000', '111'][ctx.pick('v%d' % i, 3, 'D')]
                    W.write_bin(v)
                    M.put(int(v, 2), 3)
                else:
                    v = 0
                    W.skip(w)
                    M.put(0, w)
                fields.append([kind, w, pos, v])
            elif op[0] == 'set':
                us = [f for f in fields if f[0] == 'uint']
                if len(us) <= op[1]:
                    return 'noop', viol, fields          # nothing to overwrite: not a case
                f = us[-1 - op[1]]
                v = (f[3] + 1 + ctx.pick('s%d' % i, 2, 'D')) & ((1 << f[1]) - 1)
                W.set_uint(v, f[1], f[2])
                M.overwrite(v, f[1], f[2])
                f[3] = v
            else:
                nobs += 1
                if M.n % 8 == 0:
                    got = W.to_bytes()
                    if got != M.to_bytes():
                        viol.append({'sig': 'hist-observed-bytes:after-%s' % (ops[i - 1][0] if i else 'nothing'),
                                     'detail': 'to_bytes() after operation %d differs from the model' % i,
                                     'expected': M.to_bytes(), 'observed': got})
            if W.get_pos() != M.n:
                viol.append({'sig': 'hist-writer-pos:%s' % op[0], 'detail': 'after operation %d (%r) writer at %d, model at %d'
                             % (i, op, W.get_pos(), M.n), 'expected': M.n, 'observed': W.get_pos()})
                return 'pos', viol, fields
        b = _finish_bytes(W)
        M.pad_to_octet()
        if b != M.to_bytes():
            viol.append({'sig': 'hist-bytes:' + '+'.join(sorted({o[0] for o in ops})), 'detail': 'final bytes differ from the model',
                         'expected': M.to_bytes(), 'observed': b})
        if W.to_bytes() != b:
            viol.append({'sig': 'hist-tobytes-unstable', 'detail': 'two consecutive to_bytes() calls differ'})
        R = get_bit_reader(b)
        for kind, w, pos, v in fields:
            if kind == 'uint':
                got = R.read_uint(w)
            elif kind == 'int':
                got = R.read_int(w)
            elif kind == 'bool':
                got = R.read_bool()
            elif kind == 'bytes':
                got = R.read_bytes(1)
            elif kind == 'bin':
                got = R.read_bin(w)
            else:
                got = R.read_uint(w)
            if got != v:
                viol.append({'sig': 'hist-readback:%s' % kind, 'detail': '%s field of %d bits at %d reads back %r, holds %r'
                             % (kind, w, pos, got, v), 'expected': v, 'observed': got})
                break
        return 'ok:%d' % nobs, viol, fields
    return body


def hist_roots(L):
    """every operation sequence of length <= L that contains at least one overwrite or one observation which is not the
    first operation (plain append sequences are the subject of part 2)"""
    out = []
    for n in range(2, L + 1):
        for ops in itertools.product(HIST_OPS, repeat=n):
            kinds = [o[0] for o in ops]
            if 'set' not in kinds and 'obs' not in kinds[1:]:
                continue
            if kinds[0] != 'app':
                continue
            # an overwrite needs enough unsigned fields before it
            nu, ok = 0, True
            for o in ops:
                if o[0] == 'app' and o[1] == 'uint':
                    nu += 1
                elif o[0] == 'set' and nu <= o[1]:
                    ok = False
                    break
            if ok:
                out.append(ops)
    return out


def run_histories(args):
    roots, bound = args
    p = Partial()
    st = tree.Stats()
    for ops in roots:
        body = hist_body(ops)

        def on_leaf(ctx, result, ops=ops):
            outcome, viol, fields = result
            p.n['exec'] += 1
            p.outcome((tuple(o[0] for o in ops), outcome, ctx.deviations()))
            if not p.samples:
                p.sample({'ops': [list(o) for o in ops]})
            for v in viol:
                p.violation(v['sig'], {'ops': [list(o) for o in ops], 'choices': ctx.vector()},
                            v['detail'], v.get('expected'), v.get('observed'))
        tree.explore(body, bound, on_leaf, st)
    p.n['nodes'] += st.nodes
    p.n['edges'] += st.edges
    p.n['max_depth'] = max(p.n['max_depth'], st.max_depth)
    return p


# ---------------------------------------------------------------------------------------
def replay(part, case):
    if part == 'lattice':
        _, viol = lattice_case(case)
        return [dict(v, sig='%s:w%s' % (v['sig'], _wclass(case[1]))) for v in viol]
    if part.startswith('sequences'):
        kinds = [tuple(k) for k in case['kinds']]
        ctx, (outcome, viol, fields) = tree.replay(seq_body(kinds), case['choices'])
        return viol
    if part.startswith('writer-histories'):
        ops = tuple(tuple(o) for o in case['ops'])
        ctx, (outcome, viol, fields) = tree.replay(hist_body(ops), case['choices'])
        return viol
    raise ValueError(part)


def main(tier, seed):
    rep = Report(PID, tier, seed)
    rep.rule = ('lattice: full product width x value x offset per operation kind; sequences: every sequence of '
                'typed fields up to the length bound, values explored by deviation bound; an outcome class is '
                '(operation kind, result class, byte-multiple width) resp. (type sequence, deviations, alignment pattern)')
    rep.trusted_base = ['mc.ref.bits (Python int bit model)', 'CPython int arithmetic']
    rep.assumptions = ['write_bin("0"*k) is used by the harness to pad to a whole octet before to_bytes()']

    cases = list(lattice_cases())
    parts = run_shards(run_lattice, split(cases, 32))
    p = merge_all(parts)
    p.n['nodes'] = len(cases) + 1     # a flat product: one root + one leaf per case
    p.n['edges'] = len(cases)
    p.sample(cases[0]); p.sample(cases[len(cases) // 2]); p.sample(cases[-1])
    rep.add_part('lattice', p, bounds={'widths': '1..64', 'offsets': '0..7',
                                       'values': '0,1,2^(n-1),2^n-2,2^n-1; signed +-; overflow 2^n,-1,2^n+1'})

    ks = field_kinds()
    plan = [(3, 1)] if tier == 'quick' else [(3, 2), (4, 0)]
    for L, d in plan:
        roots = []
        for n in range(1, L + 1):
            roots.extend(itertools.product(ks, repeat=n))
        # seed only rotates dispatch order
        shards = split(roots, 64)
        k = seed % len(shards)
        shards = shards[k:] + shards[:k]
        parts = run_shards(run_sequences, [(s, d) for s in shards])
        rep.add_part('sequences-L%d-d%d' % (L, d), merge_all(parts),
                     bounds={'max_len': L, 'deviations': d, 'field_kinds': len(ks), 'roots': len(roots)})

    for L, d in ([(3, 1), (4, 0)] if tier == 'quick' else [(4, 1), (5, 0)]):
        roots = hist_roots(L)
        shards = split(roots, 64)
        k = seed % len(shards)
        shards = shards[k:] + shards[:k]
        parts = run_shards(run_histories, [(s, d) for s in shards])
        rep.add_part('writer-histories-L%d-d%d' % (L, d), merge_all(parts),
                     bounds={'max_len': L, 'deviations': d, 'operations': len(HIST_OPS), 'roots': len(roots),
                             'alphabet': 'append {uint 1/7/8/16/24, int 9, bool, bytes 1, bin 3, skip 3/8}, overwrite of the '
                                         '1st/2nd/3rd most recent unsigned field, observation (to_bytes when aligned, get_pos)'})
    return rep.finish()
