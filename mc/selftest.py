"""Validation of the framework itself (run by MANIFEST.setup_cmd)."""
import sys


def main(argv):
    ok = True
    from mc.engine import tree
    # E1 engine: the number of leaves of a 3-point tree with 3 options each, deviation bound d,
    # must be sum_{k<=d} C(3,k)*2^k
    import math
    for d in range(4):
        leaves = []
        tree.explore(lambda ctx: [ctx.pick('p%d' % i, 3, 'D') for i in range(3)], d,
                     lambda ctx, r: leaves.append(tuple(r)))
        exp = sum(math.comb(3, k) * 2 ** k for k in range(d + 1))
        if len(leaves) != exp or len(set(leaves)) != exp:
            print('selftest: E1 enumeration wrong for d=%d: %d (distinct %d), expected %d'
                  % (d, len(leaves), len(set(leaves)), exp))
            ok = False
    # replay divergence must be detected
    try:
        tree.replay(lambda ctx: ctx.pick('x', 2), [('y', 1)])
        print('selftest: replay divergence not detected')
        ok = False
    except tree.Nondeterminism:
        pass
    from mc.ref.bits import BitBuf, BitSrc
    b = BitBuf(); b.put(5, 3); b.put_signmag(-3, 4); b.put_bytes(b'A'); b.pad_to_octet()
    s = BitSrc(b.to_bytes())
    if (s.get(3), s.get_signmag(4), s.get_bytes(1)) != (5, -3, b'A'):
        print('selftest: R.bits round trip wrong')
        ok = False
    try:
        import pybufrkit  # noqa
    except Exception as e:
        print('selftest: cannot import pybufrkit: %r' % e)
        ok = False
    for extra in _extra_selftests():
        ok = extra() and ok
    print('selftest: %s' % ('ok' if ok else 'FAILED'))
    return 0 if ok else 1


def _extra_selftests():
    out = []
    try:
        from mc.ref import selftest_ref
        out.append(selftest_ref.run)
    except ImportError:
        pass
    return out


if __name__ == '__main__':
    sys.exit(main(sys.argv[1:]))
