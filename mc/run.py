"""
Entry point:  python -m mc.run <Cxx> quick|thorough
              python -m mc.run replay <file>
              python -m mc.run selftest
"""
import importlib
import json
import os
import sys
import traceback


def main(argv):
    if not argv:
        print(__doc__)
        return 2
    if argv[0] == 'replay':
        from mc.engine.harness import unjson
        with open(argv[1]) as f:
            art = json.load(f)
        if art.get('history_dependent') and not os.environ.get('VERIF_REPLAY_SINGLE'):
            # the case alone does not violate; the violation needs the exploration history: re-run the check
            import subprocess
            r = subprocess.run([sys.executable, '-m', 'mc.run', art['property'], art.get('tier', 'quick')],
                               env=dict(os.environ, VERIF_FAILFAST='1'), capture_output=True, text=True)
            again = 'FAILFAST property=' in r.stdout
            print('REPLAY-RESULT ' + json.dumps({'violated': again, 'observed': [l for l in r.stdout.splitlines() if l.startswith('FAILFAST')][:1]}))
            if again:
                print('VIOLATION property=%s replay=%s' % (art['property'], argv[1]))
            return 1 if again else 0
        if isinstance(art.get('case'), dict) and '$crash' in art['case']:
            # the implementation raised where the check expected no exception: show the recorded traceback and
            # re-run the check up to its first violating part
            import subprocess
            print(art['detail'])
            r = subprocess.run([sys.executable, '-m', 'mc.run', art['property'], art.get('tier', 'quick')],
                               env=dict(os.environ, VERIF_FAILFAST='1'), capture_output=True, text=True)
            again = 'impl-crash|' in r.stdout
            print('REPLAY-RESULT ' + json.dumps({'violated': again, 'observed': [art['sig']] if again else []}))
            if again:
                print('VIOLATION property=%s replay=%s' % (art['property'], argv[1]))
            return 1 if again else 0
        mod = importlib.import_module('mc.checks.' + art['property'].lower())
        viols = mod.replay(art['part'], unjson(art['case']))
        import re
        scrub = lambda t: re.sub(r'0x[0-9a-fA-F]+', '0x..', str(t))[:400]     # object addresses differ between processes
        res = {'violated': bool(viols),
               'observed': [(v['sig'], scrub(v['detail'])) for v in viols][:5]}
        print('REPLAY-RESULT ' + json.dumps(res, sort_keys=True))
        if viols:
            print('VIOLATION property=%s replay=%s' % (art['property'], argv[1]))
        return 1 if viols else 0
    if argv[0] == 'selftest':
        from mc import selftest
        return selftest.main(argv[1:])
    pid = argv[0].upper()
    tier = argv[1] if len(argv) > 1 else os.environ.get('VERIF_TIER', 'quick')
    if tier not in ('quick', 'thorough'):
        print('tier must be quick or thorough')
        return 2
    try:
        seed = int(os.environ.get('VERIF_SEED', '0'))
    except ValueError:
        seed = 0
    mod = importlib.import_module('mc.checks.' + pid.lower())
    try:
        return mod.main(tier, seed)
    except Exception as e:
        traceback.print_exc()
        from mc.engine.pool import impl_origin
        origin = impl_origin(e)
        if origin is not None:
            # raised inside a call into the implementation that the check expected to succeed: a verdict, not a harness failure
            from mc.engine.harness import REPLAY_DIR
            d = os.path.join(REPLAY_DIR, pid)
            os.makedirs(d, exist_ok=True)
            path = os.path.join(d, '%s-crash.json' % tier)
            with open(path, 'w') as f:
                json.dump({'property': pid, 'part': '_main', 'tier': tier, 'sig': 'impl-crash|' + origin,
                           'case': {'$crash': origin}, 'detail': traceback.format_exc()[-3000:],
                           'expected': None, 'observed': None}, f, indent=1, sort_keys=True)
            print('  sig=impl-crash|%s' % origin)
            print('VIOLATION property=%s replay=%s' % (pid, path))
            return 1
        print('HARNESS-ERROR property=%s (exception in the check itself, not a verdict)' % pid)
        return 2


if __name__ == '__main__':
    sys.exit(main(sys.argv[1:]))
