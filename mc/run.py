"""
Entry point:  python -m mc.run <Cxx> quick|thorough
              python -m mc.run replay <file>
              python -m mc.run selftest
"""
import importlib
import json
import os
import sys
import traceback


def main(argv):
    if not argv:
        print(__doc__)
        return 2
    if argv[0] == 'replay':
        from mc.engine.harness import unjson
        with open(argv[1]) as f:
            art = json.load(f)
        mod = importlib.import_module('mc.checks.' + art['property'].lower())
        viols = mod.replay(art['part'], unjson(art['case']))
        import re
        scrub = lambda t: re.sub(r'0x[0-9a-fA-F]+', '0x..', str(t))[:400]     # object addresses differ between processes
        res = {'violated': bool(viols),
               'observed': [(v['sig'], scrub(v['detail'])) for v in viols][:5]}
        print('REPLAY-RESULT ' + json.dumps(res, sort_keys=True))
        if viols:
            print('VIOLATION property=%s replay=%s' % (art['property'], argv[1]))
        return 1 if viols else 0
    if argv[0] == 'selftest':
        from mc import selftest
        return selftest.main(argv[1:])
    pid = argv[0].upper()
    tier = argv[1] if len(argv) > 1 else os.environ.get('VERIF_TIER', 'quick')
    if tier not in ('quick', 'thorough'):
        print('tier must be quick or thorough')
        return 2
    try:
        seed = int(os.environ.get('VERIF_SEED', '0'))
    except ValueError:
        seed = 0
    mod = importlib.import_module('mc.checks.' + pid.lower())
    try:
        return mod.main(tier, seed)
    except Exception:
        traceback.print_exc()
        print('HARNESS-ERROR property=%s (exception in the check itself, not a verdict)' % pid)
        return 2


if __name__ == '__main__':
    sys.exit(main(sys.argv[1:]))
